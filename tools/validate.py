#!/usr/bin/env python3
import json, jsonschema, glob, sys
ok = True
try:
    jsonschema.validate(json.load(open('/verif/MANIFEST.json')), json.load(open('/root/.vp/MANIFEST.schema.json')))
except Exception as e:
    ok = False; print("MANIFEST invalid:", str(e)[:300])
sch = json.load(open('/root/.vp/EVIDENCE.schema.json'))
for f in sorted(glob.glob('/verif/evidence/*.json')):
    try:
        jsonschema.validate(json.load(open(f)), sch)
    except Exception as e:
        ok = False; print(f, "invalid:", str(e)[:300])
print("all valid" if ok else "INVALID")
