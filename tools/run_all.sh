#!/bin/bash
# tools/run_all.sh [seed]: every quick check once on the current tree; prints one line per check.
cd /verif
export VERIF_SEED="${1:-1}"
bad=0
for p in C01 C02 C03 C04 C05 C06 C07 C08 C09 C10 C11 C12 C13 C14 C15 C16 C17 C18; do
  out=$(./check $p --tier quick 2>&1); rc=$?
  line=$(echo "$out" | grep -E "^$p tier=" | tail -1 | cut -c1-160)
  if [ $rc -ne 0 ]; then bad=1; echo "!! $p rc=$rc"; echo "$out" | grep -v KNOWN-FINDING | tail -6 | cut -c1-400; else echo "ok $line"; fi
done
python3-vt tools/validate.py | tail -1
exit $bad
