#!/usr/bin/env python3
"""tools/save_seed.py <seed-id e.g. C04b> <detected_by> <needs> [note]: copy a confirmed seeded change
from /tmp/seed-<id>-out into /verif/seeded/<Cxx>-<suffix>/ with meta.json and append to RESULTS.md"""
import json, os, shutil, sys
sid, det, needs = sys.argv[1], sys.argv[2], sys.argv[3]
note = sys.argv[4] if len(sys.argv) > 4 else ""
pid = sid[:3]; suffix = sid[3:] or "a"
src = f"/tmp/seed-{sid}-out"; dst = f"/verif/seeded/{pid}-{suffix}"
os.makedirs(dst, exist_ok=True)
for f in ("patch.diff", "demo.rs", "NOTES.md"):
    if os.path.exists(f"{src}/{f}"): shutil.copy(f"{src}/{f}", f"{dst}/{f}")
meta = {"breaks_property": pid, "origin": "independent sub-agent given only the property text (round 2: plus a one-line 'do not reuse this idea' hint) and a scratch worktree of /repo",
        "needs_to_manifest": needs, "confirmed": "tools/verify_seed.sh: crate builds, `cargo test --offline` 182 unit + doc tests pass with the change, demo fails with the change and passes after `git apply -R`",
        "checks_run": "tools/try_seed.sh: patch applied to /repo, quick checks run, patch undone", "detected_by": det, "note": note}
json.dump(meta, open(f"{dst}/meta.json", "w"), indent=1)
files = [l for l in open(f"{src}/patch.diff") if l.startswith("+++ ")]
fname = files[0].split("/", 1)[1].strip() if files else "?"
with open("/verif/seeded/RESULTS.md", "a") as f:
    f.write(f"| {pid}-{suffix} | {fname}: {note or 'see NOTES.md'} | {needs} | {det} |\n")
print("saved", dst)
