#!/bin/bash
# tools/try_seed.sh <patch.diff> [Cxx ...]  : apply a seeded change to /repo, run the quick checks
# (all 18 by default), print which raise a VIOLATION, and undo the change.
set -u
PATCH="$(readlink -f "$1")"; shift
PROPS=("$@")
if [ ${#PROPS[@]} -eq 0 ]; then PROPS=(C01 C02 C03 C04 C05 C06 C07 C08 C09 C10 C11 C12 C13 C14 C15 C16 C17 C18); fi
# LOLV_REPO: the lol-html checkout the harness is built against (default /repo; a snapshot run
# points its Cargo.toml files and this variable at its own copy)
REPO="${LOLV_REPO:-/repo}"
ROOT="$(cd "$(dirname "$0")/.." && pwd)"
if ! git -C "$REPO" diff --quiet; then echo "$REPO has uncommitted changes; refusing"; exit 2; fi
git -C "$REPO" apply "$PATCH" || { echo "patch does not apply"; exit 2; }
trap 'git -C "$REPO" checkout -- . ; rm -f "$ROOT"/replays/found/*; ( cd "$ROOT/harness" && cargo build --offline --features hooks --bin lolv >/dev/null 2>&1 )' EXIT
cd "$ROOT"
DET=(); MISS=(); INC=()
for p in "${PROPS[@]}"; do
  out=$(./check "$p" --tier quick 2>&1); rc=$?
  if [ $rc -eq 1 ]; then DET+=("$p"); echo "== $p DETECTS:"; echo "$out" | grep -v "^KNOWN-FINDING" | head -6 | cut -c1-400
  elif [ $rc -eq 0 ]; then MISS+=("$p")
  else INC+=("$p"); echo "== $p INCONCLUSIVE (rc=$rc)"; echo "$out" | tail -5 | cut -c1-300; fi
done
echo "SUMMARY detected_by=[${DET[*]:-}] silent=[${MISS[*]:-}] inconclusive=[${INC[*]:-}]"
