#!/usr/bin/env python3
"""Regenerates /verif/MANIFEST.json from the table below (keeps it valid at all times)."""
import json, os, sys
ROOT = os.path.dirname(os.path.dirname(os.path.abspath(__file__)))

# id -> (level category, technique, level text, level note, design section)
CHECKS = {
 "C01": ("exploration", "property-based testing (proptest tape generator) with identity/round-trip oracle",
         "Generated (input x encoding x observer set x schedule) cases; sink bytes must equal the input byte for byte (captured text normalised via one-shot decode/encode; ambiguity error => prefix). Held on every generated case; absence is not established.",
         "Trusts encoding_rs one-shot codecs and the reported text-node ranges (checked by C14).", "4/C01"),
 "C02": ("exploration", "property-based testing, metamorphic relation between write schedules (exhaustive 1-cut / 2-cut enumeration per generated input)",
         "Each generated (input, encoding, observer or mutating handler set) is run under the single-write schedule and under every 1-cut (<=120 B), every 2-cut (<=24 B), byte-wise and random k-cut schedules with empty writes, plus rewrite_str; result kind, sink bytes and the normalised event log (incl. source ranges, text-chunk protocol) must be identical.",
         "Mutation scripts are functions of token content only; a failed run is compared by result kind and prefix relation only.", "4/C02"),
 "C06": ("exploration", "property-based testing, metamorphic relation between handler configurations (H vs H+observers)",
         "Each generated input/schedule is run with handler set H and with 1-3 supersets H+O (O observers only); sink bytes and the events of H's handlers must be identical, i.e. tag-scan mode and full lexing agree.",
         "Inputs are valid in their encoding and avoid characters with ASCII trail bytes so that an added text observer cannot legitimately normalise bytes (C01's documented exception).", "4/C06"),
 "C14": ("exploration", "property-based testing with a layout-owning document generator and an independent attribute tokenizer as reference model",
         "Generated structured documents (generator records every token's byte range) x schedules x encodings: every reported element/end tag/comment/doctype/text-node range and every attribute name/value range must equal the generator's; byte-soup inputs are checked for range invariants.",
         "R-attr (harness WHATWG start-tag tokenizer, cross-checked against html5ever in C16) defines attribute bytes.", "4/C14"),
 "C16": ("exploration", "property-based testing against reference models (R-attr, R-tree) plus differential against html5ever's tag token",
         "For generated start tags with arbitrary attribute syntax in HTML/SVG/MathML context, every cut inside the tag and 36 encodings, all Element getters before and after set_attribute/remove_attribute/set_tag_name must equal the model derived from the tag's bytes.",
         "html5ever 0.39 as WHATWG reference for single tags; lookups restricted to names set_attribute accepts.", "4/C16"),
 "C04": ("exploration", "property-based testing against a reference model (CSS selector evaluator R-css over the induced element tree R-tree)",
         "Generated selector sets (full supported grammar, shared prefixes) x structured documents x schedules; for every selector the set of start tags its handler fired for must equal the reference evaluation, without duplicates, and independently of the other registered selectors.",
         "Reference = harness evaluator of CSS Selectors semantics as stated by the property; open finding C04-not-flattening classified by signature.", "4/C04"),
 "C05": ("exploration", "property-based testing against a reference scope model (R-scope = R-tree + R-css)",
         "Generated handler combinations (element/end-tag/text/comments per selector, document handlers, optional content-removing mutation) x documents x schedules; the full invocation log (which handler, which token, order) must equal the log computed from the scope model.",
         "Order between elements closed by one end tag and between several end handlers is not fixed by the property and compared as a multiset.", "4/C05"),
}
PENDING = {}
ALL = [f"C{i:02d}" for i in range(1, 19)]

def main():
    checks = []
    for pid in ALL:
        if pid not in CHECKS: continue
        cat, tech, text, note, ref = CHECKS[pid]
        checks.append({
            "property_id": pid,
            "quick_cmd": f"./check {pid} --tier quick",
            "thorough_cmd": f"./check {pid} --tier thorough",
            "evidence_file": f"/verif/evidence/{pid}.json",
            "replay_cmd_template": f"./check {pid} --replay {{path}}",
            "engine": "lolv",
            "level_claimed": {"category": cat, "text": text, "design_ref": f"DESIGN.md section {ref}"},
            "level_note": note,
            "technique": tech,
        })
    na = [{"property_id": p, "reason": PENDING.get(p, "check not built yet in this round (planned: see DESIGN.md section 4); not claimed until it exists")} for p in ALL if p not in CHECKS]
    m = {
        "version": 1,
        "setup_cmd": "./setup.sh",
        "hooks": {
            "guard": "cargo feature _verif_hooks (off by default)",
            "enable": "harness crate depends on lol_html with features = [\"_verif_hooks\"] (harness feature `hooks`); C03 additionally enables the repository's existing `_integration_test` feature",
            "baseline_off_cmd": "cd /repo && cargo test --workspace --no-fail-fast --offline",
            "source_commits": ["1189822"],
            "add_only": True,
        },
        "engines": [
            {"name": "lolv", "path": "/verif/harness", "serves_properties": [c["property_id"] for c in checks],
             "kind_free_text": "proptest TestRunner over choice tapes (u16 vectors decoded into structured cases), 16 shards, shrinking, replay files, regression tier, known-finding classification"},
        ],
        "checks": checks,
        "not_applicable": na,
        "notes": "All checks: ./check <id> --tier quick|thorough; exit 0 held / 1 VIOLATION line / 2 inconclusive. Known findings: /verif/known_findings.json.",
    }
    json.dump(m, open(os.path.join(ROOT, "MANIFEST.json"), "w"), indent=1)
    print("wrote MANIFEST.json with", len(checks), "checks")
main()
