#!/usr/bin/env python3
"""Regenerates /verif/MANIFEST.json from the table below (keeps it valid at all times)."""
import json, os, sys
ROOT = os.path.dirname(os.path.dirname(os.path.abspath(__file__)))

# id -> (level category, technique, level text, level note, design section)
CHECKS = {
 "C01": ("exploration", "property-based testing (proptest tape generator) with identity/round-trip oracle",
         "Generated (input x encoding x observer set x schedule) cases; sink bytes must equal the input byte for byte (captured text normalised via one-shot decode/encode; ambiguity error => prefix). Held on every generated case; absence is not established.",
         "Trusts encoding_rs one-shot codecs and the reported text-node ranges (checked by C14).", "4/C01"),
 "C02": ("exploration", "property-based testing, metamorphic relation between write schedules (exhaustive 1-cut / 2-cut enumeration per generated input)",
         "Each generated (input, encoding, observer or mutating handler set) is run under the single-write schedule and under every 1-cut (<=120 B), every 2-cut (<=24 B), byte-wise and random k-cut schedules with empty writes, plus rewrite_str; result kind, sink bytes and the normalised event log (incl. source ranges, text-chunk protocol) must be identical.",
         "Mutation scripts are functions of token content only; a failed run is compared by result kind and prefix relation only.", "4/C02"),
 "C06": ("exploration", "property-based testing, metamorphic relation between handler configurations (H vs H+observers)",
         "Each generated input/schedule is run with handler set H and with 1-3 supersets H+O (O observers only); sink bytes and the events of H's handlers must be identical, i.e. tag-scan mode and full lexing agree.",
         "Inputs are valid in their encoding and avoid characters with ASCII trail bytes so that an added text observer cannot legitimately normalise bytes (C01's documented exception).", "4/C06"),
 "C14": ("exploration", "property-based testing with a layout-owning document generator and an independent attribute tokenizer as reference model",
         "Generated structured documents (generator records every token's byte range) x schedules x encodings: every reported element/end tag/comment/doctype/text-node range and every attribute name/value range must equal the generator's; an auditing handler registered after content-editing handlers re-reads attribute locations (still-reported ranges must be the bytes of the current name/value, untouched attributes keep theirs); byte-soup inputs are checked for range invariants.",
         "R-attr (harness WHATWG start-tag tokenizer, cross-checked against html5ever in C16) defines attribute bytes.", "4/C14"),
 "C16": ("exploration", "property-based testing against reference models (R-attr, R-tree) plus differential against html5ever's tag token",
         "For generated start tags with arbitrary attribute syntax in HTML/SVG/MathML context, every cut inside the tag, 36 encodings and optional companion registrations with generated selectors, all Element and StartTag getters before and after set_attribute/remove_attribute/set_tag_name must equal the model derived from the tag's bytes.",
         "html5ever 0.39 as WHATWG reference for single tags; lookups restricted to names set_attribute accepts.", "4/C16"),
 "C04": ("exploration", "property-based testing against a reference model (CSS selector evaluator R-css over the induced element tree R-tree)",
         "Generated selector sets (full supported grammar, shared prefixes) x structured documents x schedules; for every selector the set of start tags its handler fired for must equal the reference evaluation, without duplicates, and independently of the other registered selectors.",
         "Reference = harness evaluator of CSS Selectors semantics as stated by the property; open finding C04-not-flattening classified by signature.", "4/C04"),
 "C05": ("exploration", "property-based testing against a reference scope model (R-scope = R-tree + R-css)",
         "Generated handler combinations (element/end-tag/text/comments per selector, document handlers, optional content-removing mutation) x documents x schedules; the full invocation log (which handler, which token, order) must equal the log computed from the scope model.",
         "Order between elements closed by one end tag and between several end handlers is not fixed by the property and compared as a multiset.", "4/C05"),
 "C09": ("exploration", "property-based testing: metamorphic (fresh rewriter per prefix vs any schedule) plus a latency reference model over the generator's layout, exhaustive prefix enumeration per input",
         "For every prefix length of every generated input a fresh rewriter given the prefix in one write is the reference: other schedules must have emitted exactly as much; with no handlers the pending bytes must fit R-latency (nothing after complete tokens or in text, '<'..name for an unfinished tag, short look-aheads), with handlers at most the single unfinished token.",
         "R-latency is derived from reading the tokenizer's look-ahead sequences; open finding C09-foreign-tags-buffered is limited to exactly the foreign tags that request a lexeme (integration-point start tags, <font>, MathML names without a hash).", "4/C09"),
 "C10": ("fault_enumeration", "property-based testing with a swept fault parameter (memory limit) and invariants over the sweep",
         "Growth-targeted inputs x handler configurations x fixed preallocation x schedules, with the memory limit swept densely: result is Ok or MemoryLimitExceeded, accounted usage (hook) and retained bytes never exceed the limit after a successful call, success is monotone in the limit with identical output, the failing call is deterministic, and k open elements under a selector set are only accepted when the limit covers k times the per-element cost measured on the same configuration at 1 and 9 open elements (charging must stay linear); four heap families in a child process with a counting allocator bound memory the limiter does not see (40 000 distinct names under a 16 KiB limit: live heap growth <= limit + 192 KiB).",
         "Uses the _verif_hooks accessor; the tree-builder simulator's namespace stack is outside the limiter (DESIGN section 7).", "4/C10"),
 "C11": ("fault_enumeration", "property-based testing with exhaustive fault injection (every handler invocation index, memory-limit sweep) and a byte-conservation oracle",
         "For every generated (input, schedule, observer/insert-only handler set, bail-out handlers, flags) every handler invocation and every streaming content writer fails once and the memory limit is swept; at the moment the error returns sink (sentinels removed) + unwritten input must equal the input, bail-out handlers run exactly once in order only for their flag's error kind, and nothing is flushed without the flag.",
         "Documented exceptions accepted only in their exact shape; open finding C11-decoder-held-bytes-lost classified by signature.", "4/C11"),
 "C12": ("fault_enumeration", "property-based testing over call histories with exhaustive fault injection and a sink-protocol monitor",
         "Histories write*;end with empty writes/documents, empty-string mutations, charset switching and injected faults at every handler index / memory limits: the ordered sink log must start with set_encoding, contain a zero-length chunk exactly once as the last call of a successful end(), receive nothing after an error, a poked rewriter must panic without output, and non-graceful failures leave a prefix of the complete output.",
         "The harness pokes the rewriter after an error inside catch_unwind.", "4/C12"),
 "C15": ("exploration", "property-based testing / fuzz-style generation (bytes, mutated documents, selector strings, settings) with crash oracle, child-process pathological families and deterministic instruction-count ratios",
         "Arbitrary bytes, selector strings and settings must yield Ok/Err: no panic with debug assertions and overflow checks on, no internal error surfacing as ContentHandlerError, no abort/stack overflow in 10 large pathological families (child processes), and instruction counts at n and 4n (cachegrind) must stay below ratio 8.",
         "A hang is only ever reported as inconclusive by the watchdog; valgrind cachegrind instruction counts are deterministic for a fixed binary.", "4/C15"),
 "C03": ("exploration", "property-based testing, differential against an independent implementation (html5ever 0.39 tokenizer driven by its real tree builder)",
         "Generated tag soup over an adversarial fragment alphabet (HTML namespace) and documents from a well-nested foreign-content grammar, x capture sets x schedules: a successful strict run's full token stream (via TransformController) must equal html5ever's, an ambiguity error requires a text-mode start tag after <select>/<frameset>, and strict Ok implies an identical non-strict run.",
         "html5ever 0.39 + rcdom is the WHATWG reference; no character references/CR/NUL; annotation-xml and <p>/<li>/<a>/<td> inside integration points excluded because html5ever deviates from the specification there; three open findings excluded by construction.", "4/C03"),
 "C07": ("exploration", "property-based testing against a reference model (R-edit reference editor over the generator's token layout)",
         "Generated operation scripts (element, end-tag, comment, text, doctype, document-end edits split between several handlers) x structured documents x 36 encodings x schedules; the sink must equal the reference editor's rendering byte for byte (modified tags compared after re-tokenisation: names, attribute order, raw values, foreign self-closing flag).",
         "R-edit implements the documented placement only; end-dependent operations are asserted only for elements closed by their own end tag; undefined call orders are not generated.", "4/C07"),
 "C08": ("exploration", "property-based testing, round-trip / differential: re-parse of the output by html5ever and by lol-html itself",
         "Adversarial strings (markup characters, terminators, entities, NUL/CR, non-BMP, unmappable) inserted as Text content, attribute value/name, tag name and comment text at 19 insertion points in Data/RCDATA/RAWTEXT/script/SVG/MathML/comment contexts, on target tags with 9 attribute-list shapes (empty values, `=`-led names, `/` separators, value-less, duplicates) and in 36 encodings: re-parsing the output must give the original token structure plus exactly the inserted item; rejected calls leave the output byte-identical.",
         "html5ever 0.39 is the re-parser; WHATWG preprocessing applied to expected text; set_tag_name within its documented precondition.", "4/C08"),
 "C13": ("exploration", "property-based testing, differential against encoding_rs one-shot codecs in all 36 encodings",
         "Strings read by handlers (text nodes incl. >1 KiB runs, malformed bytes, characters split by writes; comment text; names; attribute values) must equal the one-shot decode of the bytes at the reported range; inserted content must equal the one-shot encode with numeric references; <meta charset> switches once, the sink notified right after the declaring tag's bytes, for later tokens and insertions only, under five handler sets (with and without anything keeping the lexer running); non-ASCII-compatible encodings are refused.",
         "encoding_rs whole-buffer decode_without_bom_handling / encode as the oracle.", "4/C13"),
 "C17": ("exploration", "property-based differential testing of mirrored handler scripts (C entry points vs Rust API) under AddressSanitizer + LeakSanitizer, in a supervised child process",
         "One generated script is interpreted through extern \"C\" declarations written from lol_html.h and through the Rust API: sink bytes, accessor values, return codes and error texts must match, every failure must leave a thread-local last error (and never a stale one, never visible to another thread), drop callbacks run exactly once; free orders permitted by the header are permuted; the child runs under ASan/LSan and an abort, unwind, sanitizer report or leak is attributed to the journaled case.",
         "Histories the header forbids are not generated; falls back to a plain build if the nightly ASan build is unavailable (recorded in the evidence).", "4/C17"),
 "C18": ("exploration", "property-based testing, metamorphic: concurrent / migrated instances vs their own sequential run",
         "Batches of 16 rewriters (equal and different configurations, faults, tiny limits) run on 16 threads behind a barrier with generated yields, plus a send::HtmlRewriter moved to a new thread after every write and repeated concurrent parsing of supported/refused/invalid selector strings (outcome must equal a brand-new thread's); each instance's sink calls, events and errors must equal its sequential run.",
         "The OS schedule is sampled, not controlled: detects shared mutable state, not a specific interleaving; C API thread-local errors are checked in C17.", "4/C18"),
}
PENDING = {}
ALL = [f"C{i:02d}" for i in range(1, 19)]

def main():
    checks = []
    for pid in ALL:
        if pid not in CHECKS: continue
        cat, tech, text, note, ref = CHECKS[pid]
        checks.append({
            "property_id": pid,
            "quick_cmd": f"./check {pid} --tier quick",
            "thorough_cmd": f"./check {pid} --tier thorough",
            "evidence_file": f"/verif/evidence/{pid}.json",
            "replay_cmd_template": f"./check {pid} --replay {{path}}",
            "engine": "lolv-capi" if pid == "C17" else "lolv",
            "level_claimed": {"category": cat, "text": text, "design_ref": f"DESIGN.md section {ref}"},
            "level_note": note + ("" if pid in ("C17", "C18") else " Thorough tier: 20-40x the cases, then a coverage-guided libFuzzer campaign (16 processes) over the same tape decoder and oracle."),
            "technique": tech,
        })
    na = [{"property_id": p, "reason": PENDING.get(p, "check not built yet in this round (planned: see DESIGN.md section 4); not claimed until it exists")} for p in ALL if p not in CHECKS]
    m = {
        "version": 1,
        "setup_cmd": "./setup.sh",
        "hooks": {
            "guard": "cargo feature _verif_hooks (off by default)",
            "enable": "harness crate depends on lol_html with features = [\"_verif_hooks\"] (harness feature `hooks`); C03 additionally enables the repository's existing `_integration_test` feature",
            "baseline_off_cmd": "cd /repo && cargo test --workspace --no-fail-fast --offline",
            "source_commits": ["1189822"],
            "add_only": True,
        },
        "engines": [
            {"name": "lolv", "path": "/verif/harness", "serves_properties": [c["property_id"] for c in checks if c["property_id"] != "C17"],
             "kind_free_text": "proptest TestRunner over choice tapes (u16 vectors decoded into structured cases), 16 shards, shrinking, replay files, regression tier, known-finding classification"},
            {"name": "lolv-capi", "path": "/verif/capi", "serves_properties": ["C17"],
             "kind_free_text": "same proptest tape engine; mirrored-script interpreters for the C ABI (extern declarations from lol_html.h) and the Rust API; parent/child supervision with per-thread case journals; nightly AddressSanitizer+LeakSanitizer build"},
        ],
        "checks": checks,
        "not_applicable": na,
        "notes": "All checks: ./check <id> --tier quick|thorough; exit 0 held / 1 VIOLATION line / 2 inconclusive. Known findings: /verif/known_findings.json.",
    }
    json.dump(m, open(os.path.join(ROOT, "MANIFEST.json"), "w"), indent=1)
    print("wrote MANIFEST.json with", len(checks), "checks")
main()
