#!/usr/bin/env python3
"""Regenerates /verif/MANIFEST.json from the table below (keeps it valid at all times)."""
import json, os, sys
ROOT = os.path.dirname(os.path.dirname(os.path.abspath(__file__)))

# id -> (level category, technique, level text, level note, design section)
CHECKS = {
 "C01": ("exploration", "property-based testing (proptest tape generator) with identity/round-trip oracle",
         "Generated (input x encoding x observer set x schedule) cases; sink bytes must equal the input byte for byte (captured text normalised via one-shot decode/encode; ambiguity error => prefix). Held on every generated case; absence is not established.",
         "Trusts encoding_rs one-shot codecs and the reported text-node ranges (checked by C14).", "4/C01"),
}
PENDING = {}
ALL = [f"C{i:02d}" for i in range(1, 19)]

def main():
    checks = []
    for pid in ALL:
        if pid not in CHECKS: continue
        cat, tech, text, note, ref = CHECKS[pid]
        checks.append({
            "property_id": pid,
            "quick_cmd": f"./check {pid} --tier quick",
            "thorough_cmd": f"./check {pid} --tier thorough",
            "evidence_file": f"/verif/evidence/{pid}.json",
            "replay_cmd_template": f"./check {pid} --replay {{path}}",
            "engine": "lolv",
            "level_claimed": {"category": cat, "text": text, "design_ref": f"DESIGN.md section {ref}"},
            "level_note": note,
            "technique": tech,
        })
    na = [{"property_id": p, "reason": PENDING.get(p, "check not built yet in this round (planned: see DESIGN.md section 4); not claimed until it exists")} for p in ALL if p not in CHECKS]
    m = {
        "version": 1,
        "setup_cmd": "./setup.sh",
        "hooks": {
            "guard": "cargo feature _verif_hooks (off by default)",
            "enable": "harness crate depends on lol_html with features = [\"_verif_hooks\"] (harness feature `hooks`); C03 additionally enables the repository's existing `_integration_test` feature",
            "baseline_off_cmd": "cd /repo && cargo test --workspace --no-fail-fast --offline",
            "source_commits": ["1189822"],
            "add_only": True,
        },
        "engines": [
            {"name": "lolv", "path": "/verif/harness", "serves_properties": [c["property_id"] for c in checks],
             "kind_free_text": "proptest TestRunner over choice tapes (u16 vectors decoded into structured cases), 16 shards, shrinking, replay files, regression tier, known-finding classification"},
        ],
        "checks": checks,
        "not_applicable": na,
        "notes": "All checks: ./check <id> --tier quick|thorough; exit 0 held / 1 VIOLATION line / 2 inconclusive. Known findings: /verif/known_findings.json.",
    }
    json.dump(m, open(os.path.join(ROOT, "MANIFEST.json"), "w"), indent=1)
    print("wrote MANIFEST.json with", len(checks), "checks")
main()
