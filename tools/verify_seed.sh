#!/bin/bash
# tools/verify_seed.sh <Cxx> [suffix]: confirm a sub-agent's seeded change in its scratch worktree:
# compiles, existing tests pass, demo fails with the change and passes without it.
set -u
ID="$1"; SFX="${2:-}"
W=/tmp/seed-$ID$SFX; O=/tmp/seed-$ID$SFX-out
cd "$W" || exit 2
export CARGO_NET_OFFLINE=true
[ -f "$O/patch.diff" ] || { echo "no patch.diff"; exit 2; }
mkdir -p examples; cp "$O/demo.rs" examples/demo.rs
echo "--- tests with change"; cargo test --offline 2>&1 | grep -E "^test result|FAILED|error(\[|:)" | head -5
echo "--- demo with change"; timeout 600 cargo run --offline --example demo >/tmp/demo-$ID.out 2>&1; rc1=$?; tail -3 /tmp/demo-$ID.out | cut -c1-300; echo "rc=$rc1"
git apply -R "$O/patch.diff" || { echo 'cannot reverse patch'; exit 2; }
echo "--- demo without change"; timeout 600 cargo run --offline --example demo >/tmp/demo-$ID.out 2>&1; rc2=$?; tail -2 /tmp/demo-$ID.out | cut -c1-300; echo "rc=$rc2"
git apply "$O/patch.diff"
rm -f examples/demo.rs
git diff > /tmp/seed-$ID$SFX.actual.diff
if [ $rc1 -ne 0 ] && [ $rc2 -eq 0 ]; then echo "CONFIRMED $ID$SFX"; else echo "NOT CONFIRMED $ID$SFX (rc with=$rc1 without=$rc2)"; fi
