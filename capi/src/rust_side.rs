//! The script interpreted through the Rust API (the reference for the C run).
use crate::script::*;
use lol_html::html_content::*;
use lol_html::{AsciiCompatibleEncoding, DocumentContentHandlers, ElementContentHandlers, HtmlRewriter, MemorySettings, Selector, Settings};
use std::borrow::Cow;
use std::sync::{Arc, Mutex};

pub type Log = Arc<Mutex<Vec<String>>>;

fn push(log: &Log, s: String) {
    log.lock().unwrap().push(s);
}

fn ct(is_html: bool) -> ContentType {
    if is_html { ContentType::Html } else { ContentType::Text }
}

fn utf8<'a>(b: &'a [u8]) -> Result<&'a str, String> {
    std::str::from_utf8(b).map_err(|e| e.to_string())
}

fn loc(l: SourceLocation) -> String {
    let r = l.bytes();
    format!("{}..{}", r.start, r.end)
}

struct Pieces {
    pieces: Vec<(Vec<u8>, bool)>,
    is_html: bool,
    ret: i32,
    log: Log,
}

impl StreamingHandler for Pieces {
    fn write_all(self: Box<Self>, sink: &mut StreamingHandlerSink<'_>) -> Result<(), Box<dyn std::error::Error + Send + Sync>> {
        for (b, as_chunk) in &self.pieces {
            if *as_chunk {
                let rc = if sink.write_utf8_chunk(b, ct(self.is_html)).is_ok() { 0 } else { -1 };
                push(&self.log, format!("stream.write_utf8_chunk rc={rc}"));
            } else {
                match utf8(b) {
                    Ok(s) => {
                        sink.write_str(s, ct(self.is_html));
                        push(&self.log, "stream.write_str rc=0".into());
                    }
                    Err(_) => push(&self.log, "stream.write_str rc=-1".into()),
                }
            }
        }
        if self.ret == 0 { Ok(()) } else { Err(format!("write_all_callback reported error: {}", self.ret).into()) }
    }
}

type HR = Result<(), Box<dyn std::error::Error + Send + Sync>>;
const STOPPED: &str = "The rewriter has been stopped.";

fn end_tag_acts(e: &mut EndTag<'_>, acts: &[Act], log: &Log) -> HR {
    for a in acts {
        match a {
            Act::Reads => push(log, format!("end_tag name={:?} pc={:?} loc={}", e.name(), e.name_preserve_case(), loc(e.source_location()))),
            Act::Content(w, b, h) => {
                let rc = match utf8(b) {
                    Err(er) => format!("-1 {er}"),
                    Ok(s) => match w {
                        Where::Before => {
                            e.before(s, ct(*h));
                            "0".into()
                        }
                        Where::After => {
                            e.after(s, ct(*h));
                            "0".into()
                        }
                        _ => "skip".into(),
                    },
                };
                push(log, format!("end_tag.{w:?} rc={rc}"));
            }
            Act::Remove => {
                e.remove();
                push(log, "end_tag.remove".into());
            }
            Act::SetTagName(n) => {
                let rc = match utf8(n) {
                    Err(er) => format!("-1 {er}"),
                    Ok(s) => {
                        e.set_name_str(s.to_string());
                        "0".into()
                    }
                };
                push(log, format!("end_tag.name_set rc={rc}"));
            }
            Act::Stream(w, pieces, h, ret) => {
                let p = Box::new(Pieces { pieces: pieces.clone(), is_html: *h, ret: *ret, log: log.clone() });
                match w {
                    Where::Before => e.streaming_before(p),
                    Where::After => e.streaming_after(p),
                    _ => e.streaming_replace(p),
                }
                push(log, format!("end_tag.streaming_{w:?} rc=0"));
            }
            Act::Stop => return Err(STOPPED.into()),
            _ => {}
        }
    }
    Ok(())
}

fn element_acts(el: &mut Element<'_, '_>, acts: &[Act], log: &Log) -> HR {
    for a in acts {
        match a {
            Act::Reads => {
                let attrs: Vec<(String, String, String)> = el.attributes().iter().map(|a| (a.name(), a.name_preserve_case(), a.value())).collect();
                push(log, format!("element name={:?} pc={:?} ns={:?} sc={} chc={} attrs={attrs:?} loc={}", el.tag_name(), el.tag_name_preserve_case(), el.namespace_uri(), el.is_self_closing(), el.can_have_content(), loc(el.source_location())));
            }
            Act::GetAttr(n) => push(log, format!("get_attribute -> {}", match utf8(n) { Err(_) => "NULL".to_string(), Ok(s) => el.get_attribute(s).map(|v| format!("{v:?}")).unwrap_or("NULL".into()) })),
            Act::HasAttr(n) => push(log, format!("has_attribute -> {}", match utf8(n) { Err(_) => -1, Ok(s) => el.has_attribute(s) as i32 })),
            Act::Content(w, b, h) => {
                let rc = match utf8(b) {
                    Err(er) => format!("-1 {er}"),
                    Ok(s) => {
                        match w {
                            Where::Before => el.before(s, ct(*h)),
                            Where::After => el.after(s, ct(*h)),
                            Where::Prepend => el.prepend(s, ct(*h)),
                            Where::Append => el.append(s, ct(*h)),
                            Where::SetInner => el.set_inner_content(s, ct(*h)),
                            Where::Replace => el.replace(s, ct(*h)),
                        }
                        "0".into()
                    }
                };
                push(log, format!("element.{w:?} rc={rc}"));
            }
            Act::Stream(w, pieces, h, ret) => {
                let p = Box::new(Pieces { pieces: pieces.clone(), is_html: *h, ret: *ret, log: log.clone() });
                match w {
                    Where::Before => el.streaming_before(p),
                    Where::After => el.streaming_after(p),
                    Where::Prepend => el.streaming_prepend(p),
                    Where::Append => el.streaming_append(p),
                    Where::SetInner => el.streaming_set_inner_content(p),
                    Where::Replace => el.streaming_replace(p),
                }
                push(log, format!("element.streaming_{w:?} rc=0"));
            }
            Act::Remove => {
                el.remove();
                push(log, "element.remove".into());
            }
            Act::RemoveKeep => {
                el.remove_and_keep_content();
                push(log, "element.remove_and_keep_content".into());
            }
            Act::IsRemoved => push(log, format!("element.is_removed -> {}", el.removed())),
            Act::SetAttr(n, v) => {
                let rc = match (utf8(n), utf8(v)) {
                    (Err(e), _) => format!("-1 {e}"),
                    (_, Err(e)) => format!("-1 {e}"),
                    (Ok(n), Ok(v)) => match el.set_attribute(n, v) {
                        Ok(()) => "0".into(),
                        Err(e) => format!("-1 {e}"),
                    },
                };
                push(log, format!("element.set_attribute rc={rc}"));
            }
            Act::RemoveAttr(n) => {
                let rc = match utf8(n) {
                    Err(e) => format!("-1 {e}"),
                    Ok(n) => {
                        el.remove_attribute(n);
                        "0".into()
                    }
                };
                push(log, format!("element.remove_attribute rc={rc}"));
            }
            Act::SetTagName(n) => {
                let rc = match utf8(n) {
                    Err(e) => format!("-1 {e}"),
                    Ok(n) => match el.set_tag_name(n) {
                        Ok(()) => "0".into(),
                        Err(e) => format!("-1 {e}"),
                    },
                };
                push(log, format!("element.tag_name_set rc={rc}"));
            }
            Act::UserData(k) => {
                el.set_user_data(*k);
                let got = el.user_data().downcast_ref::<usize>().copied();
                push(log, format!("element.user_data -> {got:?}"));
            }
            Act::OnEndTag(eacts) => {
                let rc = match el.end_tag_handlers() {
                    None => -1,
                    Some(hs) => {
                        let (eacts, lg) = (eacts.clone(), log.clone());
                        hs.push(Box::new(move |e: &mut EndTag<'_>| end_tag_acts(e, &eacts, &lg)) as _);
                        0
                    }
                };
                push(log, format!("element.add_end_tag_handler rc={rc}"));
            }
            Act::ClearEndTagHandlers => {
                if let Some(hs) = el.end_tag_handlers() {
                    hs.clear();
                }
                push(log, "element.clear_end_tag_handlers".into());
            }
            Act::Stop => return Err(STOPPED.into()),
            Act::SetText(_) => {}
        }
    }
    Ok(())
}

fn comment_acts(c: &mut Comment<'_>, acts: &[Act], log: &Log) -> HR {
    for a in acts {
        match a {
            Act::Reads => push(log, format!("comment text={:?} loc={}", c.text(), loc(c.source_location()))),
            Act::Content(w, b, h) => {
                let rc = match utf8(b) {
                    Err(er) => format!("-1 {er}"),
                    Ok(s) => match w {
                        Where::Before => {
                            c.before(s, ct(*h));
                            "0".into()
                        }
                        Where::After => {
                            c.after(s, ct(*h));
                            "0".into()
                        }
                        Where::Replace => {
                            c.replace(s, ct(*h));
                            "0".into()
                        }
                        _ => "skip".into(),
                    },
                };
                push(log, format!("comment.{w:?} rc={rc}"));
            }
            Act::SetText(b) => {
                let rc = match utf8(b) {
                    Err(e) => format!("-1 {e}"),
                    Ok(s) => match c.set_text(s) {
                        Ok(()) => "0".into(),
                        Err(e) => format!("-1 {e}"),
                    },
                };
                push(log, format!("comment.text_set rc={rc}"));
            }
            Act::Remove => {
                c.remove();
                push(log, "comment.remove".into());
            }
            Act::IsRemoved => push(log, format!("comment.is_removed -> {}", c.removed())),
            Act::UserData(k) => {
                c.set_user_data(*k);
                push(log, format!("comment.user_data -> {:?}", c.user_data().downcast_ref::<usize>().copied()));
            }
            Act::Stop => return Err(STOPPED.into()),
            _ => {}
        }
    }
    Ok(())
}

fn text_acts(t: &mut TextChunk<'_>, acts: &[Act], log: &Log) -> HR {
    for a in acts {
        match a {
            Act::Reads => push(log, format!("text content={:?} last={} loc={}", t.as_str(), t.last_in_text_node(), loc(t.source_location()))),
            Act::Content(w, b, h) => {
                let rc = match utf8(b) {
                    Err(er) => format!("-1 {er}"),
                    Ok(s) => match w {
                        Where::Before => {
                            t.before(s, ct(*h));
                            "0".into()
                        }
                        Where::After => {
                            t.after(s, ct(*h));
                            "0".into()
                        }
                        Where::Replace => {
                            t.replace(s, ct(*h));
                            "0".into()
                        }
                        _ => "skip".into(),
                    },
                };
                push(log, format!("text.{w:?} rc={rc}"));
            }
            Act::Stream(w, pieces, h, ret) => {
                let p = Box::new(Pieces { pieces: pieces.clone(), is_html: *h, ret: *ret, log: log.clone() });
                match w {
                    Where::Before => t.streaming_before(p),
                    Where::After => t.streaming_after(p),
                    _ => t.streaming_replace(p),
                }
                push(log, format!("text.streaming_{w:?} rc=0"));
            }
            Act::Remove => {
                t.remove();
                push(log, "text.remove".into());
            }
            Act::IsRemoved => push(log, format!("text.is_removed -> {}", t.removed())),
            Act::UserData(k) => {
                t.set_user_data(*k);
                push(log, format!("text.user_data -> {:?}", t.user_data().downcast_ref::<usize>().copied()));
            }
            Act::Stop => return Err(STOPPED.into()),
            _ => {}
        }
    }
    Ok(())
}

fn doctype_acts(d: &mut Doctype<'_>, acts: &[Act], log: &Log) -> HR {
    for a in acts {
        match a {
            Act::Reads => push(log, format!("doctype name={:?} public={:?} system={:?} loc={}", d.name(), d.public_id(), d.system_id(), loc(d.source_location()))),
            Act::Remove => {
                d.remove();
                push(log, "doctype.remove".into());
            }
            Act::IsRemoved => push(log, format!("doctype.is_removed -> {}", d.removed())),
            Act::UserData(k) => {
                d.set_user_data(*k);
                push(log, format!("doctype.user_data -> {:?}", d.user_data().downcast_ref::<usize>().copied()));
            }
            Act::Stop => return Err(STOPPED.into()),
            _ => {}
        }
    }
    Ok(())
}

fn doc_end_acts(d: &mut DocumentEnd<'_>, acts: &[Act], log: &Log) -> HR {
    for a in acts {
        match a {
            Act::Content(Where::Append, b, h) => {
                let rc = match utf8(b) {
                    Err(er) => format!("-1 {er}"),
                    Ok(s) => {
                        d.append(s, ct(*h));
                        "0".into()
                    }
                };
                push(log, format!("doc_end.append rc={rc}"));
            }
            Act::Stop => return Err(STOPPED.into()),
            _ => {}
        }
    }
    Ok(())
}

pub fn run(s: &Script) -> Outcome {
    let log: Log = Default::default();
    let out: Arc<Mutex<Vec<u8>>> = Default::default();
    let mut calls = vec![];
    // selectors first (a script parses all selectors before building)
    let mut parsed: Vec<Option<Selector>> = vec![];
    for sh in &s.sels {
        let r = utf8(&sh.selector).and_then(|x| x.parse::<Selector>().map_err(|e| e.to_string()));
        match r {
            Ok(p) => {
                push(&log, "selector_parse ok".into());
                parsed.push(Some(p));
            }
            Err(e) => {
                push(&log, format!("selector_parse NULL {e}"));
                parsed.push(None);
            }
        }
    }
    let enc = encoding_rs::Encoding::for_label_no_replacement(&s.encoding).and_then(AsciiCompatibleEncoding::new);
    let Some(enc) = enc else {
        calls.push("build err".to_string());
        return Outcome { log: log.lock().unwrap().clone(), out: vec![], calls };
    };
    let mut st = Settings::new()
        .with_encoding(enc)
        .with_strict(s.strict)
        .with_enable_esi_tags(s.esi)
        .with_memory_settings(MemorySettings::new().with_preallocated_parsing_buffer_size(s.prealloc).with_max_allowed_memory_usage(s.max_mem).with_graceful_bail_out_on_memory_limit_exceeded(s.graceful_mem));
    for (sh, p) in s.sels.iter().zip(parsed.into_iter()) {
        let Some(p) = p else { continue };
        let mut h = ElementContentHandlers::default();
        if let Some(a) = &sh.element {
            let (a, lg) = (a.clone(), log.clone());
            h = h.element(move |el: &mut Element<'_, '_>| element_acts(el, &a, &lg));
        }
        if let Some(a) = &sh.comments {
            let (a, lg) = (a.clone(), log.clone());
            h = h.comments(move |c: &mut Comment<'_>| comment_acts(c, &a, &lg));
        }
        if let Some(a) = &sh.text {
            let (a, lg) = (a.clone(), log.clone());
            h = h.text(move |t: &mut TextChunk<'_>| text_acts(t, &a, &lg));
        }
        st = st.append_element_content_handler((Cow::Owned(p), h));
    }
    for dh in &s.docs {
        let mut h = DocumentContentHandlers::default();
        if let Some(a) = &dh.doctype {
            let (a, lg) = (a.clone(), log.clone());
            h = h.doctype(move |d: &mut Doctype<'_>| doctype_acts(d, &a, &lg));
        }
        if let Some(a) = &dh.comments {
            let (a, lg) = (a.clone(), log.clone());
            h = h.comments(move |c: &mut Comment<'_>| comment_acts(c, &a, &lg));
        }
        if let Some(a) = &dh.text {
            let (a, lg) = (a.clone(), log.clone());
            h = h.text(move |t: &mut TextChunk<'_>| text_acts(t, &a, &lg));
        }
        if let Some(a) = &dh.end {
            let (a, lg) = (a.clone(), log.clone());
            h = h.end(move |d: &mut DocumentEnd<'_>| doc_end_acts(d, &a, &lg));
        }
        st = st.append_document_content_handler(h);
    }
    let o2 = out.clone();
    let mut rw = HtmlRewriter::new(st, move |c: &[u8]| o2.lock().unwrap().extend_from_slice(c));
    calls.push("build ok".to_string());
    let mut failed = false;
    for ch in lolv::obs::split(&s.input, &s.cuts) {
        match rw.write(ch) {
            Ok(()) => calls.push("write ok".into()),
            Err(e) => {
                calls.push(format!("write err:{e}"));
                failed = true;
                break;
            }
        }
    }
    if !failed && !s.skip_end {
        match rw.end() {
            Ok(()) => calls.push("end ok".into()),
            Err(e) => calls.push(format!("end err:{e}")),
        }
    } else {
        drop(rw);
    }
    let l = log.lock().unwrap().clone();
    let o = out.lock().unwrap().clone();
    Outcome { log: l, out: o, calls }
}
