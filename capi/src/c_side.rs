//! The script interpreted through the exported C functions.
use crate::ffi::*;
use crate::script::*;
use libc::{c_char, c_int, c_void, size_t};

pub struct RunState {
    pub log: Vec<String>,
    pub out: Vec<u8>,
    pub got_final_empty_chunk: usize,
    late_strs: Vec<lol_html_str_t>,
    free_strings_late: bool,
    poll_errors: bool,
    /// leave some errors untaken (header: the last error stays until taken or replaced): a later
    /// failure must replace the pending message
    defer_errors: bool,
    deferred_pending: bool,
    stream_created: usize,
    stream_dropped: usize,
    end_tag_ctxs: Vec<*mut Ctx>,
    /// protocol problems observed on the C side (stale errors, missing errors, ...)
    pub problems: Vec<String>,
    calls: usize,
}

pub struct Ctx {
    acts: Vec<Act>,
    run: *mut RunState,
}

struct StreamCtx {
    pieces: Vec<(Vec<u8>, bool)>,
    is_html: bool,
    ret: i32,
    run: *mut RunState,
}

unsafe fn take_str(run: &mut RunState, s: lol_html_str_t) -> Option<String> {
    if s.data.is_null() {
        unsafe { lol_html_str_free(lol_html_str_t { data: s.data, len: s.len }) }; // valid for NULL (does nothing)
        return None;
    }
    let bytes = unsafe { std::slice::from_raw_parts(s.data as *const u8, s.len) };
    let r = match std::str::from_utf8(bytes) {
        Ok(x) => x.to_string(),
        Err(_) => {
            run.problems.push("a string returned by the C API is not valid UTF-8".into());
            String::from_utf8_lossy(bytes).to_string()
        }
    };
    if run.free_strings_late {
        run.late_strs.push(s);
    } else {
        unsafe { lol_html_str_free(s) };
    }
    Some(r)
}

/// After a failing call: the thread-local last error must be set (and is taken).
unsafe fn take_error(run: &mut RunState, what: &str) -> String {
    if run.poll_errors && run.calls % 3 == 0 {
        // another thread must neither see nor clear this thread's error
        let problems = std::thread::spawn(|| {
            let mut p = vec![];
            unsafe {
                let e = lol_html_take_last_error();
                if !e.data.is_null() {
                    p.push("an error recorded on one thread is visible to another thread".to_string());
                }
                lol_html_str_free(e);
                let bad = b"div >";
                let s = lol_html_selector_parse(bad.as_ptr() as *const c_char, bad.len());
                if !s.is_null() {
                    p.push("bad selector accepted".into());
                    lol_html_selector_free(s);
                }
                let e = lol_html_take_last_error();
                if e.data.is_null() {
                    p.push("no last error on the thread that provoked one".into());
                }
                lol_html_str_free(e);
            }
            p
        })
        .join()
        .unwrap_or_else(|_| vec!["helper thread panicked".into()]);
        run.problems.extend(problems);
        // a thread that exits with an untaken error must not leave it to a thread created later
        let _ = std::thread::spawn(|| unsafe {
            let bad = b"p[";
            let s = lol_html_selector_parse(bad.as_ptr() as *const c_char, bad.len());
            if !s.is_null() {
                lol_html_selector_free(s);
            }
        })
        .join();
        let stale = std::thread::spawn(|| unsafe {
            let e = lol_html_take_last_error();
            let seen = !e.data.is_null();
            lol_html_str_free(e);
            seen
        })
        .join()
        .unwrap_or(false);
        if stale {
            run.problems.push("a new thread sees the untaken error of a thread that has exited".into());
        }
    }
    run.deferred_pending = false;
    let e = unsafe { lol_html_take_last_error() };
    match unsafe { take_str(run, e) } {
        Some(s) if !s.is_empty() => s,
        Some(_) => {
            run.problems.push(format!("{what} failed but the last error string is empty"));
            String::new()
        }
        None => {
            run.problems.push(format!("{what} returned an error code but lol_html_take_last_error() is NULL"));
            String::new()
        }
    }
}

/// After a successful call: no stale error may be pending.
unsafe fn expect_no_error(run: &mut RunState, what: &str) {
    run.calls += 1;
    if run.poll_errors && !run.deferred_pending && run.calls % 4 == 0 {
        let e = unsafe { lol_html_take_last_error() };
        if let Some(s) = unsafe { take_str(run, e) } {
            run.problems.push(format!("{what} succeeded but a last error is pending: {s:?}"));
        }
    }
}

unsafe fn rc_text(run: &mut RunState, rc: c_int, what: &str) -> String {
    if rc == 0 {
        unsafe { expect_no_error(run, what) };
        "0".into()
    } else {
        format!("{rc} {}", unsafe { take_error(run, what) })
    }
}

unsafe fn rc_plain(run: &mut RunState, rc: c_int, what: &str) -> String {
    if rc != 0 {
        if run.defer_errors {
            // not taken: the next failure has to replace this message
            run.deferred_pending = true;
        } else {
            let _ = unsafe { take_error(run, what) };
        }
    }
    format!("{rc}")
}

fn loc(l: lol_html_source_location_bytes_t) -> String {
    format!("{}..{}", l.start, l.end)
}

unsafe extern "C" fn stream_write_all(sink: *mut c_void, ud: *mut c_void) -> c_int {
    let sc = unsafe { &*(ud as *const StreamCtx) };
    let run = unsafe { &mut *sc.run };
    for (b, as_chunk) in &sc.pieces {
        if *as_chunk {
            let rc = unsafe { lol_html_streaming_sink_write_utf8_chunk(sink, b.as_ptr() as *const c_char, b.len(), sc.is_html) };
            let t = unsafe { rc_plain(run, rc, "streaming_sink_write_utf8_chunk") };
            run.log.push(format!("stream.write_utf8_chunk rc={t}"));
        } else {
            let rc = unsafe { lol_html_streaming_sink_write_str(sink, b.as_ptr() as *const c_char, b.len(), sc.is_html) };
            let t = unsafe { rc_plain(run, rc, "streaming_sink_write_str") };
            run.log.push(format!("stream.write_str rc={t}"));
        }
    }
    sc.ret
}

unsafe extern "C" fn stream_drop(ud: *mut c_void) {
    let sc = unsafe { Box::from_raw(ud as *mut StreamCtx) };
    let run = unsafe { &mut *sc.run };
    run.stream_dropped += 1;
}

fn new_stream(run: *mut RunState, pieces: &[(Vec<u8>, bool)], is_html: bool, ret: i32) -> lol_html_streaming_handler_t {
    unsafe { (*run).stream_created += 1 };
    let sc = Box::into_raw(Box::new(StreamCtx { pieces: pieces.to_vec(), is_html, ret, run }));
    lol_html_streaming_handler_t { user_data: sc as *mut c_void, write_all_callback: Some(stream_write_all), drop_callback: Some(stream_drop), reserved: std::ptr::null_mut() }
}

unsafe extern "C" fn end_tag_handler(e: *mut c_void, ud: *mut c_void) -> c_int {
    let ctx = unsafe { &*(ud as *const Ctx) };
    let run = unsafe { &mut *ctx.run };
    for a in &ctx.acts {
        match a {
            Act::Reads => unsafe {
                let n = take_str(run, lol_html_end_tag_name_get(e)).unwrap_or_default();
                let p = take_str(run, lol_html_end_tag_name_get_preserve_case(e)).unwrap_or_default();
                let l = loc(lol_html_end_tag_source_location_bytes(e));
                run.log.push(format!("end_tag name={n:?} pc={p:?} loc={l}"));
            },
            Act::Content(w, b, h) => unsafe {
                let rc = match w {
                    Where::Before => Some(lol_html_end_tag_before(e, b.as_ptr() as *const c_char, b.len(), *h)),
                    Where::After => Some(lol_html_end_tag_after(e, b.as_ptr() as *const c_char, b.len(), *h)),
                    _ => None,
                };
                let t = match rc {
                    Some(rc) => rc_text(run, rc, "end_tag content"),
                    None => "skip".into(),
                };
                run.log.push(format!("end_tag.{w:?} rc={t}"));
            },
            Act::Remove => unsafe {
                lol_html_end_tag_remove(e);
                run.log.push("end_tag.remove".into());
            },
            Act::SetTagName(n) => unsafe {
                let rc = lol_html_end_tag_name_set(e, n.as_ptr() as *const c_char, n.len());
                let t = rc_text(run, rc, "end_tag_name_set");
                run.log.push(format!("end_tag.name_set rc={t}"));
            },
            Act::Stream(w, pieces, h, ret) => unsafe {
                let mut sh = new_stream(ctx.run, pieces, *h, *ret);
                let rc = match w {
                    Where::Before => lol_html_end_tag_streaming_before(e, &mut sh),
                    Where::After => lol_html_end_tag_streaming_after(e, &mut sh),
                    _ => lol_html_end_tag_streaming_replace(e, &mut sh),
                };
                run.log.push(format!("end_tag.streaming_{w:?} rc={rc}"));
            },
            Act::Stop => return LOL_HTML_STOP,
            _ => {}
        }
    }
    LOL_HTML_CONTINUE
}

type ContentFn = unsafe extern "C" fn(*mut c_void, *const c_char, size_t, bool) -> c_int;

unsafe extern "C" fn element_handler(el: *mut c_void, ud: *mut c_void) -> c_int {
    let ctx = unsafe { &*(ud as *const Ctx) };
    let run = unsafe { &mut *ctx.run };
    for a in &ctx.acts {
        match a {
            Act::Reads => unsafe {
                let name = take_str(run, lol_html_element_tag_name_get(el)).unwrap_or_default();
                let pc = take_str(run, lol_html_element_tag_name_get_preserve_case(el)).unwrap_or_default();
                let ns = std::ffi::CStr::from_ptr(lol_html_element_namespace_uri_get(el)).to_string_lossy().to_string();
                let sc = lol_html_element_is_self_closing(el);
                let chc = lol_html_element_can_have_content(el);
                let it = lol_html_attributes_iterator_get(el);
                let mut attrs: Vec<(String, String, String)> = vec![];
                loop {
                    let at = lol_html_attributes_iterator_next(it);
                    if at.is_null() {
                        break;
                    }
                    let n = take_str(run, lol_html_attribute_name_get(at)).unwrap_or_default();
                    let p = take_str(run, lol_html_attribute_name_get_preserve_case(at)).unwrap_or_default();
                    let v = take_str(run, lol_html_attribute_value_get(at)).unwrap_or_default();
                    attrs.push((n, p, v));
                }
                lol_html_attributes_iterator_free(it);
                let l = loc(lol_html_element_source_location_bytes(el));
                run.log.push(format!("element name={name:?} pc={pc:?} ns={ns:?} sc={sc} chc={chc} attrs={attrs:?} loc={l}"));
            },
            Act::GetAttr(n) => unsafe {
                let s = lol_html_element_get_attribute(el, n.as_ptr() as *const c_char, n.len());
                let v = take_str(run, s);
                if v.is_none() && std::str::from_utf8(n).is_err() {
                    let _ = take_error(run, "get_attribute with an invalid UTF-8 name");
                }
                run.log.push(format!("get_attribute -> {}", v.map(|v| format!("{v:?}")).unwrap_or("NULL".into())));
            },
            Act::HasAttr(n) => unsafe {
                let rc = lol_html_element_has_attribute(el, n.as_ptr() as *const c_char, n.len());
                if rc < 0 {
                    let _ = take_error(run, "has_attribute");
                }
                run.log.push(format!("has_attribute -> {rc}"));
            },
            Act::Content(w, b, h) => unsafe {
                let f: ContentFn = match w {
                    Where::Before => lol_html_element_before,
                    Where::After => lol_html_element_after,
                    Where::Prepend => lol_html_element_prepend,
                    Where::Append => lol_html_element_append,
                    Where::SetInner => lol_html_element_set_inner_content,
                    Where::Replace => lol_html_element_replace,
                };
                let rc = f(el, b.as_ptr() as *const c_char, b.len(), *h);
                let t = rc_text(run, rc, "element content");
                run.log.push(format!("element.{w:?} rc={t}"));
            },
            Act::Stream(w, pieces, h, ret) => unsafe {
                let mut sh = new_stream(ctx.run, pieces, *h, *ret);
                let rc = match w {
                    Where::Before => lol_html_element_streaming_before(el, &mut sh),
                    Where::After => lol_html_element_streaming_after(el, &mut sh),
                    Where::Prepend => lol_html_element_streaming_prepend(el, &mut sh),
                    Where::Append => lol_html_element_streaming_append(el, &mut sh),
                    Where::SetInner => lol_html_element_streaming_set_inner_content(el, &mut sh),
                    Where::Replace => lol_html_element_streaming_replace(el, &mut sh),
                };
                run.log.push(format!("element.streaming_{w:?} rc={rc}"));
            },
            Act::Remove => unsafe {
                lol_html_element_remove(el);
                run.log.push("element.remove".into());
            },
            Act::RemoveKeep => unsafe {
                lol_html_element_remove_and_keep_content(el);
                run.log.push("element.remove_and_keep_content".into());
            },
            Act::IsRemoved => unsafe { run.log.push(format!("element.is_removed -> {}", lol_html_element_is_removed(el))) },
            Act::SetAttr(n, v) => unsafe {
                let rc = lol_html_element_set_attribute(el, n.as_ptr() as *const c_char, n.len(), v.as_ptr() as *const c_char, v.len());
                let t = rc_text(run, rc, "set_attribute");
                run.log.push(format!("element.set_attribute rc={t}"));
            },
            Act::RemoveAttr(n) => unsafe {
                let rc = lol_html_element_remove_attribute(el, n.as_ptr() as *const c_char, n.len());
                let t = rc_text(run, rc, "remove_attribute");
                run.log.push(format!("element.remove_attribute rc={t}"));
            },
            Act::SetTagName(n) => unsafe {
                let rc = lol_html_element_tag_name_set(el, n.as_ptr() as *const c_char, n.len());
                let t = rc_text(run, rc, "tag_name_set");
                run.log.push(format!("element.tag_name_set rc={t}"));
            },
            Act::UserData(k) => unsafe {
                lol_html_element_user_data_set(el, *k as *mut c_void);
                let got = lol_html_element_user_data_get(el) as usize;
                run.log.push(format!("element.user_data -> {:?}", Some(got)));
            },
            Act::OnEndTag(eacts) => unsafe {
                let c = Box::into_raw(Box::new(Ctx { acts: eacts.clone(), run: ctx.run }));
                run.end_tag_ctxs.push(c);
                let rc = lol_html_element_add_end_tag_handler(el, end_tag_handler, c as *mut c_void);
                let t = rc_plain(run, rc, "add_end_tag_handler");
                run.log.push(format!("element.add_end_tag_handler rc={t}"));
            },
            Act::ClearEndTagHandlers => unsafe {
                lol_html_element_clear_end_tag_handlers(el);
                run.log.push("element.clear_end_tag_handlers".into());
            },
            Act::Stop => return LOL_HTML_STOP,
            Act::SetText(_) => {}
        }
    }
    LOL_HTML_CONTINUE
}

unsafe extern "C" fn comment_handler(c: *mut c_void, ud: *mut c_void) -> c_int {
    let ctx = unsafe { &*(ud as *const Ctx) };
    let run = unsafe { &mut *ctx.run };
    for a in &ctx.acts {
        match a {
            Act::Reads => unsafe {
                let t = take_str(run, lol_html_comment_text_get(c)).unwrap_or_default();
                let l = loc(lol_html_comment_source_location_bytes(c));
                run.log.push(format!("comment text={t:?} loc={l}"));
            },
            Act::Content(w, b, h) => unsafe {
                let rc = match w {
                    Where::Before => Some(lol_html_comment_before(c, b.as_ptr() as *const c_char, b.len(), *h)),
                    Where::After => Some(lol_html_comment_after(c, b.as_ptr() as *const c_char, b.len(), *h)),
                    Where::Replace => Some(lol_html_comment_replace(c, b.as_ptr() as *const c_char, b.len(), *h)),
                    _ => None,
                };
                let t = match rc {
                    Some(rc) => rc_text(run, rc, "comment content"),
                    None => "skip".into(),
                };
                run.log.push(format!("comment.{w:?} rc={t}"));
            },
            Act::SetText(b) => unsafe {
                let rc = lol_html_comment_text_set(c, b.as_ptr() as *const c_char, b.len());
                let t = rc_text(run, rc, "comment_text_set");
                run.log.push(format!("comment.text_set rc={t}"));
            },
            Act::Remove => unsafe {
                lol_html_comment_remove(c);
                run.log.push("comment.remove".into());
            },
            Act::IsRemoved => unsafe { run.log.push(format!("comment.is_removed -> {}", lol_html_comment_is_removed(c))) },
            Act::UserData(k) => unsafe {
                lol_html_comment_user_data_set(c, *k as *mut c_void);
                run.log.push(format!("comment.user_data -> {:?}", Some(lol_html_comment_user_data_get(c) as usize)));
            },
            Act::Stop => return LOL_HTML_STOP,
            _ => {}
        }
    }
    LOL_HTML_CONTINUE
}

unsafe extern "C" fn text_handler(t: *mut c_void, ud: *mut c_void) -> c_int {
    let ctx = unsafe { &*(ud as *const Ctx) };
    let run = unsafe { &mut *ctx.run };
    for a in &ctx.acts {
        match a {
            Act::Reads => unsafe {
                let c = lol_html_text_chunk_content_get(t);
                let s = String::from_utf8_lossy(std::slice::from_raw_parts(c.data as *const u8, c.len)).to_string();
                let last = lol_html_text_chunk_is_last_in_text_node(t);
                let l = loc(lol_html_text_chunk_source_location_bytes(t));
                run.log.push(format!("text content={s:?} last={last} loc={l}"));
            },
            Act::Content(w, b, h) => unsafe {
                let rc = match w {
                    Where::Before => Some(lol_html_text_chunk_before(t, b.as_ptr() as *const c_char, b.len(), *h)),
                    Where::After => Some(lol_html_text_chunk_after(t, b.as_ptr() as *const c_char, b.len(), *h)),
                    Where::Replace => Some(lol_html_text_chunk_replace(t, b.as_ptr() as *const c_char, b.len(), *h)),
                    _ => None,
                };
                let x = match rc {
                    Some(rc) => rc_text(run, rc, "text content"),
                    None => "skip".into(),
                };
                run.log.push(format!("text.{w:?} rc={x}"));
            },
            Act::Stream(w, pieces, h, ret) => unsafe {
                let mut sh = new_stream(ctx.run, pieces, *h, *ret);
                let rc = match w {
                    Where::Before => lol_html_text_chunk_streaming_before(t, &mut sh),
                    Where::After => lol_html_text_chunk_streaming_after(t, &mut sh),
                    _ => lol_html_text_chunk_streaming_replace(t, &mut sh),
                };
                run.log.push(format!("text.streaming_{w:?} rc={rc}"));
            },
            Act::Remove => unsafe {
                lol_html_text_chunk_remove(t);
                run.log.push("text.remove".into());
            },
            Act::IsRemoved => unsafe { run.log.push(format!("text.is_removed -> {}", lol_html_text_chunk_is_removed(t))) },
            Act::UserData(k) => unsafe {
                lol_html_text_chunk_user_data_set(t, *k as *mut c_void);
                run.log.push(format!("text.user_data -> {:?}", Some(lol_html_text_chunk_user_data_get(t) as usize)));
            },
            Act::Stop => return LOL_HTML_STOP,
            _ => {}
        }
    }
    LOL_HTML_CONTINUE
}

unsafe extern "C" fn doctype_handler(d: *mut c_void, ud: *mut c_void) -> c_int {
    let ctx = unsafe { &*(ud as *const Ctx) };
    let run = unsafe { &mut *ctx.run };
    for a in &ctx.acts {
        match a {
            Act::Reads => unsafe {
                let n = take_str(run, lol_html_doctype_name_get(d));
                let p = take_str(run, lol_html_doctype_public_id_get(d));
                let s = take_str(run, lol_html_doctype_system_id_get(d));
                let l = loc(lol_html_doctype_source_location_bytes(d));
                run.log.push(format!("doctype name={n:?} public={p:?} system={s:?} loc={l}"));
            },
            Act::Remove => unsafe {
                lol_html_doctype_remove(d);
                run.log.push("doctype.remove".into());
            },
            Act::IsRemoved => unsafe { run.log.push(format!("doctype.is_removed -> {}", lol_html_doctype_is_removed(d))) },
            Act::UserData(k) => unsafe {
                lol_html_doctype_user_data_set(d, *k as *mut c_void);
                run.log.push(format!("doctype.user_data -> {:?}", Some(lol_html_doctype_user_data_get(d) as usize)));
            },
            Act::Stop => return LOL_HTML_STOP,
            _ => {}
        }
    }
    LOL_HTML_CONTINUE
}

unsafe extern "C" fn doc_end_handler(d: *mut c_void, ud: *mut c_void) -> c_int {
    let ctx = unsafe { &*(ud as *const Ctx) };
    let run = unsafe { &mut *ctx.run };
    for a in &ctx.acts {
        match a {
            Act::Content(Where::Append, b, h) => unsafe {
                let rc = lol_html_doc_end_append(d, b.as_ptr() as *const c_char, b.len(), *h);
                let t = rc_text(run, rc, "doc_end_append");
                run.log.push(format!("doc_end.append rc={t}"));
            },
            Act::Stop => return LOL_HTML_STOP,
            _ => {}
        }
    }
    LOL_HTML_CONTINUE
}

unsafe extern "C" fn sink(chunk: *const c_char, len: size_t, ud: *mut c_void) {
    let run = unsafe { &mut *(ud as *mut RunState) };
    if len == 0 {
        run.got_final_empty_chunk += 1;
    } else {
        run.out.extend_from_slice(unsafe { std::slice::from_raw_parts(chunk as *const u8, len) });
    }
}

fn ctx(run: *mut RunState, acts: &Option<Vec<Act>>, all: &mut Vec<*mut Ctx>) -> (*mut c_void, bool) {
    match acts {
        None => (std::ptr::null_mut(), false),
        Some(a) => {
            let c = Box::into_raw(Box::new(Ctx { acts: a.clone(), run }));
            all.push(c);
            (c as *mut c_void, true)
        }
    }
}

/// Returns the outcome plus protocol problems seen on the C side.
pub fn run(s: &Script) -> (Outcome, Vec<String>) {
    let run = Box::into_raw(Box::new(RunState {
        log: vec![],
        out: vec![],
        got_final_empty_chunk: 0,
        late_strs: vec![],
        free_strings_late: s.free_strings_late,
        poll_errors: s.poll_errors,
        defer_errors: s.defer_errors,
        deferred_pending: false,
        stream_created: 0,
        stream_dropped: 0,
        end_tag_ctxs: vec![],
        problems: vec![],
        calls: 0,
    }));
    let mut calls = vec![];
    let mut ctxs: Vec<*mut Ctx> = vec![];
    unsafe {
        let r = &mut *run;
        // a stale error from a previous case on this thread would be a harness problem: clear it
        lol_html_str_free(lol_html_take_last_error());
        if r.defer_errors {
            // an unrelated failure whose message is never fetched: every later message must replace it
            let bad = b"div[";
            let p = lol_html_selector_parse(bad.as_ptr() as *const c_char, bad.len());
            if !p.is_null() {
                r.problems.push("bad selector 'div[' accepted".into());
                lol_html_selector_free(p);
            }
            r.deferred_pending = true;
        }
        let mut selectors: Vec<*mut c_void> = vec![];
        for sh in &s.sels {
            let p = lol_html_selector_parse(sh.selector.as_ptr() as *const c_char, sh.selector.len());
            if p.is_null() {
                let e = take_error(r, "selector_parse");
                r.log.push(format!("selector_parse NULL {e}"));
            } else {
                expect_no_error(r, "selector_parse");
                r.log.push("selector_parse ok".into());
            }
            selectors.push(p);
        }
        let builder = lol_html_rewriter_builder_new();
        for (sh, sel) in s.sels.iter().zip(selectors.iter()) {
            if sel.is_null() {
                continue;
            }
            let (eu, e) = ctx(run, &sh.element, &mut ctxs);
            let (cu, c) = ctx(run, &sh.comments, &mut ctxs);
            let (tu, t) = ctx(run, &sh.text, &mut ctxs);
            let rc = lol_html_rewriter_builder_add_element_content_handlers(builder, *sel, e.then_some(element_handler as handler_t), eu, c.then_some(comment_handler as handler_t), cu, t.then_some(text_handler as handler_t), tu);
            if rc != 0 {
                r.problems.push(format!("add_element_content_handlers returned {rc}"));
            }
        }
        for dh in &s.docs {
            let (du, d) = ctx(run, &dh.doctype, &mut ctxs);
            let (cu, c) = ctx(run, &dh.comments, &mut ctxs);
            let (tu, t) = ctx(run, &dh.text, &mut ctxs);
            let (eu, e) = ctx(run, &dh.end, &mut ctxs);
            lol_html_rewriter_builder_add_document_content_handlers(builder, d.then_some(doctype_handler as handler_t), du, c.then_some(comment_handler as handler_t), cu, t.then_some(text_handler as handler_t), tu, e.then_some(doc_end_handler as handler_t), eu);
        }
        let mem = lol_html_memory_settings_t { preallocated_parsing_buffer_size: s.prealloc, max_allowed_memory_usage: s.max_mem, graceful_bail_out_on_memory_limit_exceeded: s.graceful_mem };
        let rw = if s.esi {
            unstable_lol_html_rewriter_build_with_esi_tags(builder, s.encoding.as_ptr() as *const c_char, s.encoding.len(), mem, sink, run as *mut c_void, s.strict)
        } else {
            lol_html_rewriter_build(builder, s.encoding.as_ptr() as *const c_char, s.encoding.len(), mem, sink, run as *mut c_void, s.strict)
        };
        let mut builder_freed = false;
        let mut selectors_freed = false;
        let free_selectors = |selectors: &Vec<*mut c_void>| {
            for p in selectors {
                if !p.is_null() {
                    lol_html_selector_free(*p);
                }
            }
        };
        if rw.is_null() {
            let _ = take_error(r, "rewriter_build");
            calls.push("build err".to_string());
        } else {
            expect_no_error(r, "rewriter_build");
            calls.push("build ok".to_string());
            if s.free_builder_early {
                lol_html_rewriter_builder_free(builder);
                builder_freed = true;
                if s.free_selectors_early {
                    free_selectors(&selectors);
                    selectors_freed = true;
                }
            }
            let mut failed = false;
            for ch in lolv::obs::split(&s.input, &s.cuts) {
                // a zero-length chunk still needs a non-NULL pointer
                let rc = lol_html_rewriter_write(rw, ch.as_ptr() as *const c_char, ch.len());
                if rc == 0 {
                    expect_no_error(r, "rewriter_write");
                    calls.push("write ok".into());
                } else {
                    let e = take_error(r, "rewriter_write");
                    calls.push(format!("write err:{e}"));
                    failed = true;
                    break;
                }
            }
            if !failed && !s.skip_end {
                let rc = lol_html_rewriter_end(rw);
                if rc == 0 {
                    expect_no_error(r, "rewriter_end");
                    calls.push("end ok".into());
                    if r.got_final_empty_chunk != 1 {
                        r.problems.push(format!("the sink callback got {} zero-length chunks after a successful end()", r.got_final_empty_chunk));
                    }
                } else {
                    let e = take_error(r, "rewriter_end");
                    calls.push(format!("end err:{e}"));
                }
            }
            lol_html_rewriter_free(rw);
        }
        if !builder_freed {
            lol_html_rewriter_builder_free(builder);
        }
        if !selectors_freed {
            free_selectors(&selectors);
        }
        for sx in std::mem::take(&mut r.late_strs) {
            lol_html_str_free(sx);
        }
        if r.stream_created != r.stream_dropped {
            r.problems.push(format!("{} streaming handlers handed over, drop_callback called {} times", r.stream_created, r.stream_dropped));
        }
        for c in ctxs.into_iter().chain(std::mem::take(&mut r.end_tag_ctxs)) {
            drop(Box::from_raw(c));
        }
        let e = lol_html_take_last_error();
        if let Some(x) = take_str(r, e) {
            if !r.deferred_pending {
                r.problems.push(format!("an error is still pending after the run: {x:?}"));
            }
        } else if r.deferred_pending {
            r.problems.push("a failure whose message was never taken left no last error".into());
        }
        for sx in std::mem::take(&mut r.late_strs) {
            lol_html_str_free(sx);
        }
        let st = Box::from_raw(run);
        (Outcome { log: st.log, out: st.out, calls }, st.problems)
    }
}
