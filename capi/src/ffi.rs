//! extern "C" declarations written from c-api/include/lol_html.h (not from the Rust sources):
//! the harness drives the library through its exported C surface.
#![allow(non_camel_case_types, dead_code)]
use libc::{c_char, c_int, c_void, size_t};

#[repr(C)]
pub struct lol_html_str_t {
    pub data: *const c_char,
    pub len: size_t,
}
#[repr(C)]
pub struct lol_html_text_chunk_content_t {
    pub data: *const c_char,
    pub len: size_t,
}
#[repr(C)]
pub struct lol_html_source_location_bytes_t {
    pub start: size_t,
    pub end: size_t,
}
#[repr(C)]
pub struct lol_html_memory_settings_t {
    pub preallocated_parsing_buffer_size: size_t,
    pub max_allowed_memory_usage: size_t,
    pub graceful_bail_out_on_memory_limit_exceeded: bool,
}
#[repr(C)]
pub struct lol_html_streaming_handler_t {
    pub user_data: *mut c_void,
    pub write_all_callback: Option<unsafe extern "C" fn(sink: *mut c_void, user_data: *mut c_void) -> c_int>,
    pub drop_callback: Option<unsafe extern "C" fn(user_data: *mut c_void)>,
    pub reserved: *mut c_void,
}

pub const LOL_HTML_CONTINUE: c_int = 0;
pub const LOL_HTML_STOP: c_int = 1;

pub type handler_t = unsafe extern "C" fn(*mut c_void, *mut c_void) -> c_int;
pub type sink_t = unsafe extern "C" fn(*const c_char, size_t, *mut c_void);

unsafe extern "C" {
    pub fn lol_html_str_free(s: lol_html_str_t);
    pub fn lol_html_take_last_error() -> lol_html_str_t;
    pub fn lol_html_rewriter_builder_new() -> *mut c_void;
    pub fn lol_html_selector_parse(selector: *const c_char, len: size_t) -> *mut c_void;
    pub fn lol_html_selector_free(selector: *mut c_void);
    pub fn lol_html_rewriter_builder_add_document_content_handlers(builder: *mut c_void, doctype: Option<handler_t>, doctype_ud: *mut c_void, comment: Option<handler_t>, comment_ud: *mut c_void, text: Option<handler_t>, text_ud: *mut c_void, end: Option<handler_t>, end_ud: *mut c_void);
    pub fn lol_html_rewriter_builder_add_element_content_handlers(builder: *mut c_void, selector: *const c_void, element: Option<handler_t>, element_ud: *mut c_void, comment: Option<handler_t>, comment_ud: *mut c_void, text: Option<handler_t>, text_ud: *mut c_void) -> c_int;
    pub fn lol_html_rewriter_builder_free(builder: *mut c_void);
    pub fn lol_html_rewriter_build(builder: *mut c_void, encoding: *const c_char, encoding_len: size_t, mem: lol_html_memory_settings_t, sink: sink_t, sink_ud: *mut c_void, strict: bool) -> *mut c_void;
    pub fn unstable_lol_html_rewriter_build_with_esi_tags(builder: *mut c_void, encoding: *const c_char, encoding_len: size_t, mem: lol_html_memory_settings_t, sink: sink_t, sink_ud: *mut c_void, strict: bool) -> *mut c_void;
    pub fn lol_html_rewriter_write(rewriter: *mut c_void, chunk: *const c_char, len: size_t) -> c_int;
    pub fn lol_html_rewriter_end(rewriter: *mut c_void) -> c_int;
    pub fn lol_html_rewriter_free(rewriter: *mut c_void);

    pub fn lol_html_doctype_name_get(d: *const c_void) -> lol_html_str_t;
    pub fn lol_html_doctype_public_id_get(d: *const c_void) -> lol_html_str_t;
    pub fn lol_html_doctype_system_id_get(d: *const c_void) -> lol_html_str_t;
    pub fn lol_html_doctype_user_data_set(d: *const c_void, ud: *mut c_void);
    pub fn lol_html_doctype_user_data_get(d: *const c_void) -> *mut c_void;
    pub fn lol_html_doctype_remove(d: *mut c_void);
    pub fn lol_html_doctype_is_removed(d: *const c_void) -> bool;
    pub fn lol_html_doctype_source_location_bytes(d: *mut c_void) -> lol_html_source_location_bytes_t;

    pub fn lol_html_comment_text_get(c: *const c_void) -> lol_html_str_t;
    pub fn lol_html_comment_text_set(c: *mut c_void, text: *const c_char, len: size_t) -> c_int;
    pub fn lol_html_comment_before(c: *mut c_void, content: *const c_char, len: size_t, is_html: bool) -> c_int;
    pub fn lol_html_comment_after(c: *mut c_void, content: *const c_char, len: size_t, is_html: bool) -> c_int;
    pub fn lol_html_comment_replace(c: *mut c_void, content: *const c_char, len: size_t, is_html: bool) -> c_int;
    pub fn lol_html_comment_remove(c: *mut c_void);
    pub fn lol_html_comment_is_removed(c: *const c_void) -> bool;
    pub fn lol_html_comment_user_data_set(c: *const c_void, ud: *mut c_void);
    pub fn lol_html_comment_user_data_get(c: *const c_void) -> *mut c_void;
    pub fn lol_html_comment_source_location_bytes(c: *mut c_void) -> lol_html_source_location_bytes_t;

    pub fn lol_html_element_tag_name_get(e: *const c_void) -> lol_html_str_t;
    pub fn lol_html_element_tag_name_get_preserve_case(e: *const c_void) -> lol_html_str_t;
    pub fn lol_html_element_tag_name_set(e: *mut c_void, name: *const c_char, len: size_t) -> c_int;
    pub fn lol_html_element_is_self_closing(e: *mut c_void) -> bool;
    pub fn lol_html_element_can_have_content(e: *mut c_void) -> bool;
    pub fn lol_html_element_namespace_uri_get(e: *const c_void) -> *const c_char;
    pub fn lol_html_attributes_iterator_get(e: *const c_void) -> *mut c_void;
    pub fn lol_html_attributes_iterator_free(it: *mut c_void);
    pub fn lol_html_attributes_iterator_next(it: *mut c_void) -> *const c_void;
    pub fn lol_html_attribute_name_get(a: *const c_void) -> lol_html_str_t;
    pub fn lol_html_attribute_name_get_preserve_case(a: *const c_void) -> lol_html_str_t;
    pub fn lol_html_attribute_value_get(a: *const c_void) -> lol_html_str_t;
    pub fn lol_html_element_source_location_bytes(e: *mut c_void) -> lol_html_source_location_bytes_t;
    pub fn lol_html_element_get_attribute(e: *const c_void, name: *const c_char, len: size_t) -> lol_html_str_t;
    pub fn lol_html_element_has_attribute(e: *const c_void, name: *const c_char, len: size_t) -> c_int;
    pub fn lol_html_element_set_attribute(e: *mut c_void, name: *const c_char, name_len: size_t, value: *const c_char, value_len: size_t) -> c_int;
    pub fn lol_html_element_remove_attribute(e: *mut c_void, name: *const c_char, len: size_t) -> c_int;
    pub fn lol_html_element_before(e: *mut c_void, content: *const c_char, len: size_t, is_html: bool) -> c_int;
    pub fn lol_html_element_prepend(e: *mut c_void, content: *const c_char, len: size_t, is_html: bool) -> c_int;
    pub fn lol_html_element_append(e: *mut c_void, content: *const c_char, len: size_t, is_html: bool) -> c_int;
    pub fn lol_html_element_after(e: *mut c_void, content: *const c_char, len: size_t, is_html: bool) -> c_int;
    pub fn lol_html_element_set_inner_content(e: *mut c_void, content: *const c_char, len: size_t, is_html: bool) -> c_int;
    pub fn lol_html_element_replace(e: *mut c_void, content: *const c_char, len: size_t, is_html: bool) -> c_int;
    pub fn lol_html_element_remove(e: *const c_void);
    pub fn lol_html_element_remove_and_keep_content(e: *const c_void);
    pub fn lol_html_element_is_removed(e: *const c_void) -> bool;
    pub fn lol_html_element_user_data_set(e: *const c_void, ud: *mut c_void);
    pub fn lol_html_element_user_data_get(e: *const c_void) -> *mut c_void;
    pub fn lol_html_element_add_end_tag_handler(e: *mut c_void, h: handler_t, ud: *mut c_void) -> c_int;
    pub fn lol_html_element_clear_end_tag_handlers(e: *mut c_void);
    pub fn lol_html_element_streaming_prepend(e: *mut c_void, h: *mut lol_html_streaming_handler_t) -> c_int;
    pub fn lol_html_element_streaming_append(e: *mut c_void, h: *mut lol_html_streaming_handler_t) -> c_int;
    pub fn lol_html_element_streaming_before(e: *mut c_void, h: *mut lol_html_streaming_handler_t) -> c_int;
    pub fn lol_html_element_streaming_after(e: *mut c_void, h: *mut lol_html_streaming_handler_t) -> c_int;
    pub fn lol_html_element_streaming_set_inner_content(e: *mut c_void, h: *mut lol_html_streaming_handler_t) -> c_int;
    pub fn lol_html_element_streaming_replace(e: *mut c_void, h: *mut lol_html_streaming_handler_t) -> c_int;

    pub fn lol_html_end_tag_before(t: *mut c_void, content: *const c_char, len: size_t, is_html: bool) -> c_int;
    pub fn lol_html_end_tag_after(t: *mut c_void, content: *const c_char, len: size_t, is_html: bool) -> c_int;
    pub fn lol_html_end_tag_remove(t: *mut c_void);
    pub fn lol_html_end_tag_name_get(t: *const c_void) -> lol_html_str_t;
    pub fn lol_html_end_tag_name_get_preserve_case(t: *const c_void) -> lol_html_str_t;
    pub fn lol_html_end_tag_name_set(t: *mut c_void, name: *const c_char, len: size_t) -> c_int;
    pub fn lol_html_end_tag_source_location_bytes(t: *mut c_void) -> lol_html_source_location_bytes_t;
    pub fn lol_html_end_tag_streaming_before(t: *mut c_void, h: *mut lol_html_streaming_handler_t) -> c_int;
    pub fn lol_html_end_tag_streaming_after(t: *mut c_void, h: *mut lol_html_streaming_handler_t) -> c_int;
    pub fn lol_html_end_tag_streaming_replace(t: *mut c_void, h: *mut lol_html_streaming_handler_t) -> c_int;

    pub fn lol_html_doc_end_append(d: *mut c_void, content: *const c_char, len: size_t, is_html: bool) -> c_int;

    pub fn lol_html_streaming_sink_write_str(sink: *mut c_void, s: *const c_char, len: size_t, is_html: bool) -> c_int;
    pub fn lol_html_streaming_sink_write_utf8_chunk(sink: *mut c_void, s: *const c_char, len: size_t, is_html: bool) -> c_int;

    pub fn lol_html_text_chunk_content_get(c: *const c_void) -> lol_html_text_chunk_content_t;
    pub fn lol_html_text_chunk_before(c: *mut c_void, content: *const c_char, len: size_t, is_html: bool) -> c_int;
    pub fn lol_html_text_chunk_after(c: *mut c_void, content: *const c_char, len: size_t, is_html: bool) -> c_int;
    pub fn lol_html_text_chunk_replace(c: *mut c_void, content: *const c_char, len: size_t, is_html: bool) -> c_int;
    pub fn lol_html_text_chunk_remove(c: *mut c_void);
    pub fn lol_html_text_chunk_is_removed(c: *const c_void) -> bool;
    pub fn lol_html_text_chunk_is_last_in_text_node(c: *mut c_void) -> bool;
    pub fn lol_html_text_chunk_source_location_bytes(c: *mut c_void) -> lol_html_source_location_bytes_t;
    pub fn lol_html_text_chunk_user_data_set(c: *mut c_void, ud: *mut c_void);
    pub fn lol_html_text_chunk_user_data_get(c: *const c_void) -> *mut c_void;
    pub fn lol_html_text_chunk_streaming_before(c: *mut c_void, h: *mut lol_html_streaming_handler_t) -> c_int;
    pub fn lol_html_text_chunk_streaming_after(c: *mut c_void, h: *mut lol_html_streaming_handler_t) -> c_int;
    pub fn lol_html_text_chunk_streaming_replace(c: *mut c_void, h: *mut lol_html_streaming_handler_t) -> c_int;
}
