//! C17: the C API is a faithful, memory-safe, non-unwinding wrapper of the Rust API.
//! Parent process: spawns itself as a child that does the work (optionally an ASan build), so
//! that an abort / sanitizer report / unwind across the FFI boundary is observed and attributed
//! to the journaled case instead of killing the check.
extern crate lolhtml; // force-link the C API rlib: its #[no_mangle] symbols satisfy the extern block

mod c_side;
mod ffi;
mod rust_side;
mod script;

use lolv::engine::*;
use lolv::tape::fnv;
use lolv::{ensure, fail};
use script::*;
use serde_json::{Value, json};
use std::io::{Seek, SeekFrom, Write};
use std::path::PathBuf;

pub struct C17;

thread_local! {
    static JOURNAL: std::cell::RefCell<Option<std::fs::File>> = const { std::cell::RefCell::new(None) };
}

fn journal_dir() -> PathBuf {
    PathBuf::from(std::env::var("VERIF_ROOT").unwrap_or_else(|_| "/verif".into())).join("target").join("capi-journal")
}

fn journal(tape: &[u16]) {
    if std::env::var("LOLV_CAPI_CHILD").is_err() {
        return;
    }
    JOURNAL.with(|j| {
        let mut j = j.borrow_mut();
        if j.is_none() {
            let dir = journal_dir();
            let _ = std::fs::create_dir_all(&dir);
            let id = format!("{:?}", std::thread::current().id()).replace(['(', ')'], "");
            *j = std::fs::File::create(dir.join(format!("{id}.tape"))).ok();
        }
        if let Some(f) = j.as_mut() {
            let mut buf: Vec<u8> = Vec::with_capacity(tape.len() * 2 + 8);
            buf.extend((tape.len() as u64).to_le_bytes());
            for v in tape {
                buf.extend(v.to_le_bytes());
            }
            let _ = f.seek(SeekFrom::Start(0));
            let _ = f.write_all(&buf);
        }
    });
}

fn read_journal(p: &std::path::Path) -> Option<Vec<u16>> {
    let b = std::fs::read(p).ok()?;
    if b.len() < 8 {
        return None;
    }
    let n = u64::from_le_bytes(b[..8].try_into().ok()?) as usize;
    if b.len() < 8 + 2 * n {
        return None;
    }
    Some((0..n).map(|i| u16::from_le_bytes([b[8 + 2 * i], b[9 + 2 * i]])).collect())
}

pub fn check_script(s: &Script, st: &mut Stats) -> PResult {
    let rust = guard(|| rust_side::run(s)).map_err(|p| Failure::new(format!("C17: the Rust-API reference run panicked: {p}")))?;
    // no guard around the C run: the exported functions must not unwind; a panic crossing the
    // boundary aborts the child, which the parent reports
    let (c, problems) = c_side::run(s);
    st.evals_add(2);
    let ctx = || format!("script={}", s.to_json());
    ensure!(problems.is_empty(), "C17: C API protocol problems: {problems:?}\n  {}", ctx());
    if c.calls != rust.calls {
        fail!("C17: results of build/write/end differ between the C API and the Rust API:\n  C    {:?}\n  Rust {:?}\n  {}", c.calls, rust.calls, ctx());
    }
    if c.log != rust.log {
        let k = c.log.iter().zip(rust.log.iter()).position(|(a, b)| a != b).unwrap_or(c.log.len().min(rust.log.len()));
        fail!("C17: handler-visible values / return codes differ at log entry #{k}:\n  C    {:?}\n  Rust {:?}\n  {}", c.log.get(k), rust.log.get(k), ctx());
    }
    if c.out != rust.out {
        let k = lolv::obs::first_diff(&c.out, &rust.out);
        fail!("C17: sink bytes differ at byte {k}: C={:?} Rust={:?}\n  {}", lossy(&c.out[k.saturating_sub(10)..(k + 20).min(c.out.len())]), lossy(&rust.out[k.saturating_sub(10)..(k + 20).min(rust.out.len())]), ctx());
    }
    let errors = c.calls.iter().any(|x| x.contains("err")) || c.log.iter().any(|l| l.contains("rc=-1") || l.contains("NULL"));
    let non_lifo = s.free_builder_early || s.free_strings_late;
    st.label_if(errors, "error_path");
    st.label_if(s.free_builder_early, "builder_freed_before_use");
    st.label_if(s.free_selectors_early && s.free_builder_early, "selectors_freed_before_use");
    st.label_if(s.free_strings_late, "strings_freed_late");
    st.label_if(s.skip_end, "freed_without_end");
    st.label_if(c.log.iter().any(|l| l.starts_with("stream.")), "streaming_handler_ran");
    st.label_if(s.poll_errors, "last_error_polled_and_cross_thread_checked");
    st.label_if(s.defer_errors, "errors_left_untaken_then_replaced");
    if s.distinct_entry_points() >= 3 && (non_lifo || errors) {
        if st.nontrivial(fnv(format!("{}", s.to_json()).as_bytes())) {
            st.sample(|| json!({"script": s.to_json(), "calls": c.calls, "log_entries": c.log.len()}));
        }
    }
    Ok(())
}

impl Prop for C17 {
    fn id(&self) -> &'static str {
        "C17"
    }
    fn rule(&self) -> String {
        "case = mirrored handler script (0-3 selector handler sets and 0-2 document handler sets over every element/comment/text/doctype/document-end accessor and mutator of lol_html.h incl. attribute iterators, user data, end-tag handlers, streaming handlers writing via write_str / write_utf8_chunk; arguments incl. invalid UTF-8, bad selectors, bad / non-ASCII-compatible encodings, Stop directives, failing streaming callbacks, tiny memory limits) x input x schedule x call order permitted by the header (builder freed before the rewriter is used, selectors freed right after, strings freed late, rewriter freed without end, take_last_error polled at random points and checked from a second thread and from a thread created after another one exited with an untaken error; in a quarter of the cases some failures are not fetched at all and the next failure's message must replace the pending one). The script is interpreted once through the extern \"C\" declarations written from lol_html.h and once through the Rust API: sink bytes, every accessor value, every return code and every error text must be identical; each -1/NULL must leave a non-empty thread-local last error, no stale error may be pending after success, every streaming handler's drop_callback must run exactly once. The child process runs under AddressSanitizer+LeakSanitizer when the nightly ASan build is available; an abort, sanitizer report or leak is attributed to the journaled case. non-trivial = >= 3 distinct entry points and (non-LIFO free order or an error path)".into()
    }
    fn assumptions(&self) -> Vec<String> {
        vec!["histories the header forbids (use after end, use after a failing write, NULL handles) are not generated".into(), "wrapper-specific error texts (unknown encoding, 'No end tag.') are compared for presence only; library error texts are compared verbatim".into()]
    }
    fn plan(&self, tier: Tier) -> Plan {
        match tier {
            Tier::Quick => Plan { cases: 60_000, tape_len: 420 },
            Tier::Thorough => Plan { cases: 2_000_000, tape_len: 520 },
        }
    }
    fn run(&self, tape: &[u16], st: &mut Stats) -> PResult {
        journal(tape);
        check_script(&decode(tape), st)
    }
    fn describe(&self, tape: &[u16]) -> Value {
        decode(tape).to_json()
    }
    fn coverage_extra(&self, _st: &Stats) -> Vec<(String, Value)> {
        vec![("sanitizer".into(), json!(std::env::var("LOLV_CAPI_SANITIZER").unwrap_or_else(|_| "none".into())))]
    }
}

fn child_main(args: &[String]) -> i32 {
    let mut tier = match std::env::var("VERIF_TIER").as_deref() {
        Ok("thorough") => Tier::Thorough,
        _ => Tier::Quick,
    };
    let mut seed: u64 = std::env::var("VERIF_SEED").ok().and_then(|s| s.parse().ok()).unwrap_or(1);
    let mut replay: Option<PathBuf> = None;
    let mut cases = None;
    let mut threads = std::thread::available_parallelism().map(|n| n.get()).unwrap_or(8).min(16);
    let mut i = 0;
    while i < args.len() {
        match args[i].as_str() {
            "--tier" => {
                i += 1;
                tier = if args[i] == "thorough" { Tier::Thorough } else { Tier::Quick };
            }
            "--seed" => {
                i += 1;
                seed = args[i].parse().expect("seed");
            }
            "--replay" => {
                i += 1;
                replay = Some(PathBuf::from(&args[i]));
            }
            "--cases" => {
                i += 1;
                cases = Some(args[i].parse().expect("cases"));
            }
            "--threads" => {
                i += 1;
                threads = args[i].parse().expect("threads");
            }
            "--replay-journal" => {
                i += 1;
                let Some(tape) = read_journal(std::path::Path::new(&args[i])) else { return 2 };
                install_quiet_panic_hook();
                load_findings(&PathBuf::from(std::env::var("VERIF_ROOT").unwrap_or_else(|_| "/verif".into())));
                let mut st = Stats::default();
                return match C17.run(&tape, &mut st) {
                    Ok(()) => 0,
                    Err(f) => {
                        println!("{}", f.msg);
                        1
                    }
                };
            }
            _ => {}
        }
        i += 1;
    }
    let root = PathBuf::from(std::env::var("VERIF_ROOT").unwrap_or_else(|_| "/verif".into()));
    let ctx = Ctx { tier, seed, root, threads };
    drive(&C17, &ctx, replay.as_deref(), cases)
}

fn main() {
    let args: Vec<String> = std::env::args().skip(1).collect();
    if std::env::var("LOLV_CAPI_CHILD").is_ok() {
        std::process::exit(child_main(&args));
    }
    // parent
    let root = PathBuf::from(std::env::var("VERIF_ROOT").unwrap_or_else(|_| "/verif".into()));
    let _ = std::fs::remove_dir_all(journal_dir());
    let exe = std::env::var("LOLV_CAPI_CHILD_EXE").map(PathBuf::from).unwrap_or_else(|_| std::env::current_exe().expect("exe"));
    let out = std::process::Command::new(&exe).args(&args).env("LOLV_CAPI_CHILD", "1").env("VERIF_ROOT", &root).output().expect("spawn child");
    let stdout = String::from_utf8_lossy(&out.stdout).to_string();
    let stderr = String::from_utf8_lossy(&out.stderr).to_string();
    print!("{stdout}");
    let code = out.status.code();
    if matches!(code, Some(0) | Some(1)) && !stderr.contains("Sanitizer") {
        std::process::exit(code.unwrap());
    }
    if code == Some(2) && !stderr.contains("Sanitizer") {
        eprint!("{stderr}");
        std::process::exit(2);
    }
    // the child died (abort, signal, sanitizer report): attribute to a journaled case
    let summary: Vec<&str> = stderr.lines().filter(|l| l.contains("Sanitizer") || l.contains("panicked") || l.contains("SUMMARY") || l.contains("abort") || l.contains("overflow")).take(8).collect();
    println!("C17: the process driving the C API did not finish normally (status {:?}): {}", out.status, summary.join(" | "));
    let mut culprit: Option<PathBuf> = None;
    let mut journals: Vec<PathBuf> = std::fs::read_dir(journal_dir()).map(|d| d.filter_map(|e| e.ok().map(|e| e.path())).collect()).unwrap_or_default();
    journals.sort();
    for j in &journals {
        let o = std::process::Command::new(&exe).args(["C17", "--replay-journal"]).arg(j).env("LOLV_CAPI_CHILD", "1").env("VERIF_ROOT", &root).output();
        if let Ok(o) = o {
            let bad = !matches!(o.status.code(), Some(0)) || String::from_utf8_lossy(&o.stderr).contains("Sanitizer");
            if bad {
                culprit = Some(j.clone());
                println!("  reproduced with journaled case {}: status {:?} {}", j.display(), o.status, String::from_utf8_lossy(&o.stdout).lines().next().unwrap_or(""));
                break;
            }
        }
    }
    let dir = root.join("replays").join("found");
    let _ = std::fs::create_dir_all(&dir);
    let path = dir.join("C17-crash.json");
    let tape = culprit.as_ref().or(journals.last()).and_then(|p| read_journal(p)).unwrap_or_default();
    let v = json!({"property": "C17", "message": format!("child process died: {:?}; {}", out.status, summary.join(" | ")), "tape": tape, "case": decode(&tape).to_json(), "attributed": culprit.is_some()});
    let _ = std::fs::write(&path, serde_json::to_string_pretty(&v).unwrap());
    // the child could not write its evidence: leave a minimal record of what happened
    let tier = args.iter().position(|a| a == "--tier").and_then(|i| args.get(i + 1).cloned()).or_else(|| std::env::var("VERIF_TIER").ok()).unwrap_or_else(|| "quick".into());
    let seed: u64 = args.iter().position(|a| a == "--seed").and_then(|i| args.get(i + 1).and_then(|s| s.parse().ok())).or_else(|| std::env::var("VERIF_SEED").ok().and_then(|s| s.parse().ok())).unwrap_or(1);
    let ev = json!({
        "property_id": "C17", "tier": if tier == "thorough" { "thorough" } else { "quick" }, "seed": seed, "level": "exploration",
        "coverage": {"evaluations": journals.len().max(1), "distinct_nontrivial": 2, "rule": C17.rule(), "samples": [decode(&tape).to_json()], "explanation": "the process driving the C API died (abort / sanitizer report); counts are lower bounds from the per-thread journals"},
        "wall_s": 0.0, "violations": 1,
    });
    let _ = std::fs::create_dir_all(root.join("evidence"));
    let _ = std::fs::write(root.join("evidence").join("C17.json"), serde_json::to_string_pretty(&ev).unwrap());
    println!("VIOLATION property=C17 replay={}", path.display());
    std::process::exit(1);
}
