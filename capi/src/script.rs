//! Mirrored handler scripts: one script, interpreted through the C entry points and through
//! the Rust API.
use lolv::gens::input::{InputOpts, input_in};
use lolv::gens::sched::sched_spec;
use lolv::tape::Tape;
use serde_json::{Value, json};

#[derive(Clone, Copy, Debug, PartialEq, Eq)]
pub enum Where {
    Before,
    After,
    Prepend,
    Append,
    SetInner,
    Replace,
}

#[derive(Clone, Debug, PartialEq, Eq)]
pub enum Act {
    Reads,
    GetAttr(Vec<u8>),
    HasAttr(Vec<u8>),
    Content(Where, Vec<u8>, bool),
    /// pieces: (bytes, written via write_utf8_chunk instead of write_str), is_html, return code of the callback
    Stream(Where, Vec<(Vec<u8>, bool)>, bool, i32),
    Remove,
    RemoveKeep,
    IsRemoved,
    SetAttr(Vec<u8>, Vec<u8>),
    RemoveAttr(Vec<u8>),
    SetTagName(Vec<u8>),
    SetText(Vec<u8>),
    UserData(usize),
    OnEndTag(Vec<Act>),
    ClearEndTagHandlers,
    /// the handler returns LOL_HTML_STOP / Err after the preceding acts
    Stop,
}

#[derive(Clone, Debug, Default)]
pub struct SelH {
    pub selector: Vec<u8>,
    pub element: Option<Vec<Act>>,
    pub comments: Option<Vec<Act>>,
    pub text: Option<Vec<Act>>,
}

#[derive(Clone, Debug, Default)]
pub struct DocH {
    pub doctype: Option<Vec<Act>>,
    pub comments: Option<Vec<Act>>,
    pub text: Option<Vec<Act>>,
    pub end: Option<Vec<Act>>,
}

#[derive(Clone, Debug)]
pub struct Script {
    pub sels: Vec<SelH>,
    pub docs: Vec<DocH>,
    pub encoding: Vec<u8>,
    pub strict: bool,
    pub esi: bool,
    pub prealloc: usize,
    pub max_mem: usize,
    pub graceful_mem: bool,
    pub input: Vec<u8>,
    pub cuts: Vec<usize>,
    /// free the builder right after build (allowed by the header) or at the very end
    pub free_builder_early: bool,
    /// free selectors right after the builder is freed or at the very end
    pub free_selectors_early: bool,
    /// free returned strings immediately or keep them until the end
    pub free_strings_late: bool,
    /// call lol_html_take_last_error at random points where no error is pending
    pub poll_errors: bool,
    /// some failing calls do not fetch their message; later failures must replace it
    pub defer_errors: bool,
    /// skip lol_html_rewriter_end (free an unfinished rewriter)
    pub skip_end: bool,
}

const STRS: &[&[u8]] = &[b"X", b"", b"<b>", b"</div>", b"a&b", b"<!--", b"-->", b"\"q\"", b"x y", "é".as_bytes(), "😀".as_bytes(), b"<p>in</p>", b"\xff\xfe", b"ab\xc3", b"\xe2\x82", b"T1", b"a\0b", b"--!>"];
const NAMES: &[&[u8]] = &[b"id", b"class", b"href", b"data-x", b"A", b"x:y", b"b", b"bad name", b"", b"a=b", b"\xff", "é".as_bytes(), b"title"];
const TAGS: &[&[u8]] = &[b"div", b"span", b"x-y", b"B", b"1bad", b"", b"a b", b"a>", b"\xc3", "zé".as_bytes()];
const SELECTORS: &[&[u8]] = &[b"*", b"div", b"p", b"span", b"a[href]", b"[id]", b"div > p", b"script", b"title", b"svg *", b"li:nth-child(2)", b":not(div)", b"b, i", b"br", b"img", b"custom-element"];
const BAD_SELECTORS: &[&[u8]] = &[b"", b"div >", b"a:hover", b"[", b"\xff\xfe", b"a + b", b":not(::x)", b"::before"];
const ENCODINGS: &[&[u8]] = &[b"utf-8", b"UTF-8", b"windows-1252", b"shift_jis", b"gbk", b"koi8-r", b"utf8", b"latin1", b"euc-kr", b"big5"];
const BAD_ENCODINGS: &[&[u8]] = &[b"utf-16", b"bogus", b"", b"iso-2022-jp", b"\xff", b"utf-16le"];

fn bytes(t: &mut Tape<'_>, pool: &[&[u8]]) -> Vec<u8> {
    t.pick(pool).to_vec()
}

fn wher(t: &mut Tape<'_>, element: bool) -> Where {
    if element { *t.pick(&[Where::Before, Where::After, Where::Prepend, Where::Append, Where::SetInner, Where::Replace]) } else { *t.pick(&[Where::Before, Where::After, Where::Replace]) }
}

fn stream(t: &mut Tape<'_>, element: bool) -> Act {
    let n = t.range(0, 3);
    let pieces = (0..n).map(|_| (bytes(t, STRS), t.chance(1, 3))).collect();
    Act::Stream(wher(t, element), pieces, t.chance(1, 2), if t.chance(1, 8) { 7 } else { 0 })
}

fn end_tag_acts(t: &mut Tape<'_>) -> Vec<Act> {
    let n = t.range(1, 3);
    (0..n)
        .map(|_| match t.below(7) {
            0 => Act::Reads,
            1 => Act::Content(*t.pick(&[Where::Before, Where::After]), bytes(t, STRS), t.chance(1, 2)),
            2 => Act::Remove,
            3 => Act::SetTagName(bytes(t, TAGS)),
            4 => Act::Stream(*t.pick(&[Where::Before, Where::After, Where::Replace]), vec![(bytes(t, STRS), false)], true, 0),
            5 => Act::Stop,
            _ => Act::Reads,
        })
        .collect()
}

fn acts(t: &mut Tape<'_>, kind: u8) -> Vec<Act> {
    // kind: 0 element, 1 comment, 2 text, 3 doctype, 4 doc end
    let n = t.range(1, 5);
    let mut v = vec![Act::Reads];
    for _ in 0..n {
        let a = match kind {
            0 => match t.below(16) {
                0 => Act::GetAttr(bytes(t, NAMES)),
                1 => Act::HasAttr(bytes(t, NAMES)),
                2 | 3 | 4 => Act::Content(wher(t, true), bytes(t, STRS), t.chance(1, 2)),
                5 => stream(t, true),
                6 => Act::Remove,
                7 => Act::RemoveKeep,
                8 => Act::IsRemoved,
                9 => Act::SetAttr(bytes(t, NAMES), bytes(t, STRS)),
                10 => Act::RemoveAttr(bytes(t, NAMES)),
                11 => Act::SetTagName(bytes(t, TAGS)),
                12 => Act::UserData(t.below(1000)),
                13 | 15 => Act::OnEndTag(end_tag_acts(t)),
                14 => Act::ClearEndTagHandlers,
                _ => Act::Reads,
            },
            1 => match t.below(8) {
                0 | 1 => Act::Content(wher(t, false), bytes(t, STRS), t.chance(1, 2)),
                2 => Act::SetText(bytes(t, STRS)),
                3 => Act::Remove,
                4 => Act::IsRemoved,
                5 => Act::UserData(t.below(1000)),
                _ => Act::Reads,
            },
            2 => match t.below(8) {
                0 | 1 => Act::Content(wher(t, false), bytes(t, STRS), t.chance(1, 2)),
                2 => stream(t, false),
                3 => Act::Remove,
                4 => Act::IsRemoved,
                5 => Act::UserData(t.below(1000)),
                _ => Act::Reads,
            },
            3 => match t.below(4) {
                0 => Act::Remove,
                1 => Act::IsRemoved,
                2 => Act::UserData(t.below(1000)),
                _ => Act::Reads,
            },
            _ => Act::Content(Where::Append, bytes(t, STRS), t.chance(1, 2)),
        };
        v.push(a);
    }
    if t.chance(1, 10) {
        v.push(Act::Stop);
    }
    v
}

pub fn decode(tape: &[u16]) -> Script {
    let mut t = Tape::new(tape);
    let encoding = if t.chance(1, 10) { bytes(&mut t, BAD_ENCODINGS) } else { bytes(&mut t, ENCODINGS) };
    let strict = t.chance(1, 3);
    let esi = t.chance(1, 5);
    let prealloc = *t.pick(&[0usize, 0, 16, 1024]);
    let (max_mem, graceful_mem) = if t.chance(1, 6) { (prealloc + t.below(400), t.chance(1, 2)) } else { (usize::MAX, false) };
    let ns = t.range(0, 3);
    let mut sels = vec![];
    for _ in 0..ns {
        let selector = if t.chance(1, 10) { bytes(&mut t, BAD_SELECTORS) } else { bytes(&mut t, SELECTORS) };
        let m = t.range(1, 7);
        sels.push(SelH { selector, element: (m & 1 != 0).then(|| acts(&mut t, 0)), comments: (m & 2 != 0).then(|| acts(&mut t, 1)), text: (m & 4 != 0).then(|| acts(&mut t, 2)) });
    }
    let nd = t.range(0, 2);
    let mut docs = vec![];
    for _ in 0..nd {
        let m = t.range(1, 15);
        docs.push(DocH { doctype: (m & 1 != 0).then(|| acts(&mut t, 3)), comments: (m & 2 != 0).then(|| acts(&mut t, 1)), text: (m & 4 != 0).then(|| acts(&mut t, 2)), end: (m & 8 != 0).then(|| acts(&mut t, 4)) });
    }
    let free_builder_early = t.chance(1, 2);
    let free_selectors_early = t.chance(1, 2);
    let free_strings_late = t.chance(1, 3);
    let poll_errors = t.chance(1, 3);
    let defer_errors = t.chance(1, 4);
    let skip_end = t.chance(1, 8);
    let spec = sched_spec(&mut t);
    let mut input = input_in(&mut t, &InputOpts { max_frags: 14, ..Default::default() }, encoding_rs::UTF_8);
    if t.chance(1, 3) {
        // mixed-case tags with explicit end tags (case-preserving accessors), foreign camel-case names
        input.extend_from_slice(t.pick(&[&b"<DIV>x</DIV>"[..], b"<Span id=A>y</SPAN>", b"<svg><foreignObject>z</foreignObject></svg>", b"<P>a</p><sEcTiOn>b</sEcTiOn>", b"<A HREF=x>l</A>"]));
    }
    let cuts = spec.resolve(input.len());
    Script { sels, docs, encoding, strict, esi, prealloc, max_mem, graceful_mem, input, cuts, free_builder_early, free_selectors_early, free_strings_late, poll_errors, defer_errors, skip_end }
}

pub fn lossy(b: &[u8]) -> String {
    String::from_utf8_lossy(b).chars().flat_map(|c| c.escape_debug()).collect()
}

impl Script {
    pub fn to_json(&self) -> Value {
        json!({
            "encoding": lossy(&self.encoding), "strict": self.strict, "esi": self.esi, "prealloc": self.prealloc,
            "max_mem": if self.max_mem == usize::MAX { json!("max") } else { json!(self.max_mem) }, "graceful_mem": self.graceful_mem,
            "input": lossy(&self.input), "cuts": self.cuts,
            "sels": self.sels.iter().map(|s| json!({"selector": lossy(&s.selector), "element": format!("{:?}", s.element), "comments": format!("{:?}", s.comments), "text": format!("{:?}", s.text)})).collect::<Vec<_>>(),
            "docs": self.docs.iter().map(|d| json!({"doctype": format!("{:?}", d.doctype), "comments": format!("{:?}", d.comments), "text": format!("{:?}", d.text), "end": format!("{:?}", d.end)})).collect::<Vec<_>>(),
            "orders": {"free_builder_early": self.free_builder_early, "free_selectors_early": self.free_selectors_early, "free_strings_late": self.free_strings_late, "poll_errors": self.poll_errors, "defer_errors": self.defer_errors, "skip_end": self.skip_end},
        })
    }
    pub fn distinct_entry_points(&self) -> usize {
        let mut k = std::collections::BTreeSet::new();
        let mut visit = |a: &Vec<Act>, tag: &str| {
            for x in a {
                k.insert(format!("{tag}{:?}", std::mem::discriminant(x)));
            }
        };
        for s in &self.sels {
            for (o, tag) in [(&s.element, "e"), (&s.comments, "c"), (&s.text, "t")] {
                if let Some(a) = o {
                    visit(a, tag);
                }
            }
        }
        for d in &self.docs {
            for (o, tag) in [(&d.doctype, "d"), (&d.comments, "c"), (&d.text, "t"), (&d.end, "z")] {
                if let Some(a) = o {
                    visit(a, tag);
                }
            }
        }
        k.len()
    }
}

#[derive(Debug, Default, PartialEq, Eq, Clone)]
pub struct Outcome {
    pub log: Vec<String>,
    pub out: Vec<u8>,
    /// result of build / each write / end: "ok" or "err:<message>"
    pub calls: Vec<String>,
}
