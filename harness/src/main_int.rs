include!("main.rs");
