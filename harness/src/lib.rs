pub mod engine;
pub mod fuzz;
pub mod gens;
pub mod model;
pub mod obs;
pub mod props;
pub mod tape;
