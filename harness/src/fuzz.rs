//! Entry point shared by the libFuzzer targets: bytes -> tape -> the property's own oracle.
use crate::engine::{Prop, Stats, finding_open, guard, install_quiet_panic_hook, load_findings};
use std::path::PathBuf;

thread_local! {
    static PROPS: std::cell::OnceCell<Vec<Box<dyn Prop>>> = const { std::cell::OnceCell::new() };
}

fn with_prop<R>(id: &str, f: impl FnOnce(&dyn Prop) -> R) -> Option<R> {
    PROPS.with(|c| {
        let v = c.get_or_init(|| {
            let root = PathBuf::from(std::env::var("VERIF_ROOT").unwrap_or_else(|_| "/verif".into()));
            load_findings(&root);
            install_quiet_panic_hook();
            let _ = finding_open("");
            crate::props::all()
        });
        v.iter().find(|p| p.id() == id).map(|p| f(p.as_ref()))
    })
}

pub fn tape_of(data: &[u8]) -> Vec<u16> {
    data.chunks(2).map(|c| u16::from_le_bytes([c[0], c.get(1).copied().unwrap_or(0)])).collect()
}

/// Runs one case; a violation that is not a known finding aborts the process (libFuzzer then
/// saves the input as a crash artifact) after writing a tape replay file.
pub fn run(id: &str, data: &[u8]) {
    let tape = tape_of(data);
    let outcome = with_prop(id, |p| {
        let mut st = Stats { frozen: true, ..Stats::default() };
        let r = match guard(|| p.run(&tape, &mut st)) {
            Ok(r) => r,
            Err(panic) => {
                // a panic of the harness itself (lol-html panics are caught and judged inside the
                // oracles): inconclusive, never a violation
                eprintln!("HARNESS ERROR in fuzz target {id}: {panic}");
                std::process::abort();
            }
        };
        r.err().filter(|f| f.known.is_none()).map(|f| (f.msg, p.describe(&tape)))
    });
    if let Some(Some((msg, case))) = outcome {
        let root = PathBuf::from(std::env::var("VERIF_ROOT").unwrap_or_else(|_| "/verif".into()));
        let dir = root.join("replays").join("found");
        let _ = std::fs::create_dir_all(&dir);
        let path = dir.join(format!("{id}-fuzz-{:016x}.json", crate::tape::fnv(data)));
        let v = serde_json::json!({"property": id, "message": msg, "tape": tape, "case": case});
        let _ = std::fs::write(&path, serde_json::to_string_pretty(&v).unwrap());
        eprintln!("{msg}\nFUZZ-VIOLATION property={id} replay={}", path.display());
        std::process::abort();
    }
}
