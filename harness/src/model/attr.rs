//! R-attr: WHATWG start-tag tokenizer over raw bytes (no entity decoding). Independent of
//! lol-html; used as the oracle for attribute lists, ranges and the self-closing flag.

#[derive(Clone, Debug, PartialEq, Eq)]
pub struct RAttr {
    pub name: (usize, usize),
    pub value: (usize, usize),
}

#[derive(Clone, Debug, PartialEq, Eq)]
pub struct RTag {
    pub is_end: bool,
    pub name: (usize, usize),
    pub attrs: Vec<RAttr>,
    pub self_closing: bool,
    /// offset just past the closing '>' (None if the tag is unterminated)
    pub end: Option<usize>,
}

fn ws(c: u8) -> bool {
    matches!(c, b' ' | b'\t' | b'\n' | b'\x0c' | b'\r')
}

/// Parse a tag starting at `b[start] == b'<'` (followed by a letter, or `/` + letter).
/// Offsets are absolute in `b`.
pub fn parse_tag(b: &[u8], start: usize) -> Option<RTag> {
    let mut i = start;
    if b.get(i) != Some(&b'<') {
        return None;
    }
    i += 1;
    let is_end = b.get(i) == Some(&b'/');
    if is_end {
        i += 1;
    }
    if !b.get(i)?.is_ascii_alphabetic() {
        return None;
    }
    let ns = i;
    while i < b.len() && !ws(b[i]) && b[i] != b'/' && b[i] != b'>' {
        i += 1;
    }
    let mut tag = RTag { is_end, name: (ns, i), attrs: vec![], self_closing: false, end: None };
    #[derive(PartialEq)]
    enum S {
        BeforeName,
        Name,
        AfterName,
        BeforeValue,
        Dq,
        Sq,
        Unq,
        AfterQuoted,
        SelfClosing,
    }
    let mut s = S::BeforeName;
    let mut cur: Option<RAttr> = None;
    macro_rules! finish {
        () => {
            if let Some(a) = cur.take() {
                tag.attrs.push(a);
            }
        };
    }
    loop {
        let c = match b.get(i) {
            Some(c) => *c,
            None => {
                // EOF inside the tag: no token
                return Some(tag);
            }
        };
        match s {
            S::BeforeName => {
                if ws(c) {
                    i += 1;
                } else if c == b'/' || c == b'>' {
                    s = S::AfterName;
                } else {
                    // '=' as first char is part of the name
                    cur = Some(RAttr { name: (i, i + 1), value: (i + 1, i + 1) });
                    i += 1;
                    s = S::Name;
                }
            }
            S::Name => {
                if ws(c) || c == b'/' || c == b'>' {
                    s = S::AfterName;
                } else if c == b'=' {
                    i += 1;
                    s = S::BeforeValue;
                } else {
                    i += 1;
                    let a = cur.as_mut().unwrap();
                    a.name.1 = i;
                    a.value = (i, i);
                }
            }
            S::AfterName => {
                if ws(c) {
                    i += 1;
                } else if c == b'/' {
                    finish!();
                    i += 1;
                    s = S::SelfClosing;
                } else if c == b'=' {
                    i += 1;
                    s = S::BeforeValue;
                } else if c == b'>' {
                    finish!();
                    tag.end = Some(i + 1);
                    return Some(tag);
                } else {
                    finish!();
                    cur = Some(RAttr { name: (i, i + 1), value: (i + 1, i + 1) });
                    i += 1;
                    s = S::Name;
                }
            }
            S::BeforeValue => {
                if ws(c) {
                    i += 1;
                } else if c == b'"' {
                    i += 1;
                    if let Some(a) = cur.as_mut() {
                        a.value = (i, i);
                    }
                    s = S::Dq;
                } else if c == b'\'' {
                    i += 1;
                    if let Some(a) = cur.as_mut() {
                        a.value = (i, i);
                    }
                    s = S::Sq;
                } else if c == b'>' {
                    finish!();
                    tag.end = Some(i + 1);
                    return Some(tag);
                } else {
                    if let Some(a) = cur.as_mut() {
                        a.value = (i, i);
                    }
                    s = S::Unq;
                }
            }
            S::Dq | S::Sq => {
                let q = if s == S::Dq { b'"' } else { b'\'' };
                if c == q {
                    finish!();
                    i += 1;
                    s = S::AfterQuoted;
                } else {
                    i += 1;
                    if let Some(a) = cur.as_mut() {
                        a.value.1 = i;
                    }
                }
            }
            S::Unq => {
                if ws(c) {
                    finish!();
                    i += 1;
                    s = S::BeforeName;
                } else if c == b'>' {
                    finish!();
                    tag.end = Some(i + 1);
                    return Some(tag);
                } else {
                    i += 1;
                    if let Some(a) = cur.as_mut() {
                        a.value.1 = i;
                    }
                }
            }
            S::AfterQuoted => {
                if ws(c) {
                    i += 1;
                    s = S::BeforeName;
                } else if c == b'/' {
                    i += 1;
                    s = S::SelfClosing;
                } else if c == b'>' {
                    tag.end = Some(i + 1);
                    return Some(tag);
                } else {
                    s = S::BeforeName;
                }
            }
            S::SelfClosing => {
                if c == b'>' {
                    tag.self_closing = true;
                    tag.end = Some(i + 1);
                    return Some(tag);
                } else {
                    s = S::BeforeName;
                }
            }
        }
    }
}
