//! R-edit: reference editor implementing the documented placement of every mutation on the
//! generator's token layout (independent of the implementation's token stream).
use crate::gens::doc::{Doc, Ns, TK};
use crate::model::attr::parse_tag;
use crate::model::tree::Tree;
use crate::obs::{CT, Op};

#[derive(Clone, Debug, PartialEq, Eq)]
pub struct Chunk(pub String, pub CT);

#[derive(Clone, Debug, Default)]
pub struct TokMut {
    pub before: Vec<Chunk>,
    pub after: Vec<Chunk>,
    pub replacement: Vec<Chunk>,
    pub removed: bool,
}

impl TokMut {
    pub fn before(&mut self, c: Chunk) {
        self.before.push(c);
    }
    pub fn after(&mut self, c: Chunk) {
        self.after.insert(0, c);
    }
    pub fn replace(&mut self, c: Chunk) {
        self.removed = true;
        self.replacement = vec![c];
    }
    pub fn remove(&mut self) {
        self.removed = true;
    }
    /// generic token-level op (comments, text chunks, end tags, start tags)
    pub fn apply(&mut self, op: &Op) {
        match op {
            Op::Before(s, c) => self.before(Chunk(s.clone(), *c)),
            Op::After(s, c) => self.after(Chunk(s.clone(), *c)),
            Op::Replace(s, c) => self.replace(Chunk(s.clone(), *c)),
            Op::Remove => self.remove(),
            Op::StreamBefore(p, c) => self.before(Chunk(p.concat(), *c)),
            Op::StreamAfter(p, c) => self.after(Chunk(p.concat(), *c)),
            Op::StreamReplace(p, c) => self.replace(Chunk(p.concat(), *c)),
            _ => {}
        }
    }
}

#[derive(Clone, Debug, Default)]
pub struct ElemMut {
    pub s: TokMut,
    pub e: TokMut,
    pub remove_content: bool,
    pub new_name: Option<String>,
    /// attribute list after edits: (name as serialised, raw value); None = untouched
    pub attrs: Option<Vec<(String, String)>>,
    pub touched_tag: bool,
    pub end_ops: Vec<Op>,
}

#[derive(Clone, Debug)]
pub enum Seg {
    Bytes(Vec<u8>),
    /// a tag that may have been re-serialised: compared after re-tokenisation
    Tag { is_end: bool, name: String, attrs: Vec<(String, String)>, sc: Option<bool> },
}

pub fn valid_attr_name(n: &str) -> bool {
    !n.is_empty() && !n.bytes().any(|c| matches!(c, b' ' | b'\n' | b'\r' | b'\t' | b'\x0c' | b'/' | b'>' | b'='))
}

pub fn valid_tag_name(n: &str) -> bool {
    n.as_bytes().first().is_some_and(|c| c.is_ascii_alphabetic()) && !n.bytes().any(|c| matches!(c, b' ' | b'\n' | b'\r' | b'\t' | b'\x0c' | b'/' | b'>'))
}

fn encodable(s: &str, enc: &'static encoding_rs::Encoding) -> bool {
    !enc.encode(s).2
}

/// apply one element-level API call to the element's mutation record
pub fn apply_element_op(m: &mut ElemMut, op: &Op, chc: bool, orig_attrs: &[(String, String)], enc: &'static encoding_rs::Encoding) {
    let clear_content = |m: &mut ElemMut| {
        m.s.after.clear();
        m.e.before.clear();
        m.remove_content = true;
    };
    match op {
        Op::Before(s, c) => m.s.before(Chunk(s.clone(), *c)),
        Op::StreamBefore(p, c) => m.s.before(Chunk(p.concat(), *c)),
        Op::After(s, c) => {
            if chc { m.e.after(Chunk(s.clone(), *c)) } else { m.s.after(Chunk(s.clone(), *c)) }
        }
        Op::StreamAfter(p, c) => {
            if chc { m.e.after(Chunk(p.concat(), *c)) } else { m.s.after(Chunk(p.concat(), *c)) }
        }
        Op::Prepend(s, c) => {
            if chc {
                m.s.after(Chunk(s.clone(), *c))
            }
        }
        Op::Append(s, c) => {
            if chc {
                m.e.before(Chunk(s.clone(), *c))
            }
        }
        Op::StreamPrepend(p, c) => {
            if chc {
                m.s.after(Chunk(p.concat(), *c))
            }
        }
        Op::StreamAppend(p, c) => {
            if chc {
                m.e.before(Chunk(p.concat(), *c))
            }
        }
        Op::StreamSetInner(p, c) => {
            if chc {
                clear_content(m);
                m.s.after(Chunk(p.concat(), *c));
            }
        }
        // StartTag-level edits through Element::start_tag()
        Op::StartBefore(s, c) => m.s.before(Chunk(s.clone(), *c)),
        Op::StartAfter(s, c) => m.s.after(Chunk(s.clone(), *c)),
        Op::SetInner(s, c) => {
            if chc {
                clear_content(m);
                m.s.after(Chunk(s.clone(), *c));
            }
        }
        Op::Replace(s, c) => {
            m.s.replace(Chunk(s.clone(), *c));
            if chc {
                clear_content(m);
                m.e.remove();
            }
        }
        Op::StreamReplace(p, c) => {
            m.s.replace(Chunk(p.concat(), *c));
            if chc {
                clear_content(m);
                m.e.remove();
            }
        }
        Op::Remove => {
            m.s.remove();
            if chc {
                clear_content(m);
                m.e.remove();
            }
        }
        Op::RemoveKeep => {
            m.s.remove();
            if chc {
                m.e.remove();
            }
        }
        Op::SetAttr(n, v) => {
            m.touched_tag = true;
            if valid_attr_name(n) && encodable(n, enc) {
                let attrs = m.attrs.get_or_insert_with(|| orig_attrs.to_vec());
                let lower = n.to_ascii_lowercase();
                match attrs.iter_mut().find(|a| a.0.eq_ignore_ascii_case(&lower)) {
                    Some(a) => a.1 = v.replace('"', "&quot;"),
                    None => attrs.push((lower, v.replace('"', "&quot;"))),
                }
            }
        }
        Op::RemoveAttr(n) => {
            m.touched_tag = true;
            if valid_attr_name(n) && encodable(n, enc) {
                let attrs = m.attrs.get_or_insert_with(|| orig_attrs.to_vec());
                attrs.retain(|a| !a.0.eq_ignore_ascii_case(n));
            }
        }
        Op::SetTagName(n) => {
            m.touched_tag = true;
            if valid_tag_name(n) && encodable(n, enc) {
                m.new_name = Some(n.clone());
            }
        }
        Op::OnEndTag(ops) => {
            if chc {
                m.end_ops.extend(ops.iter().cloned());
            }
        }
        _ => {}
    }
}

fn escape_text(s: &str) -> String {
    s.replace('&', "&amp;").replace('<', "&lt;").replace('>', "&gt;")
}

pub fn chunk_bytes(c: &Chunk, enc: &'static encoding_rs::Encoding) -> Vec<u8> {
    let s = if c.1 == CT::Text { escape_text(&c.0) } else { c.0.clone() };
    enc.encode(&s).0.into_owned()
}

fn push_bytes(out: &mut Vec<Seg>, b: &[u8]) {
    if b.is_empty() {
        return;
    }
    if let Some(Seg::Bytes(v)) = out.last_mut() {
        v.extend_from_slice(b);
    } else {
        out.push(Seg::Bytes(b.to_vec()));
    }
}

fn push_chunks(out: &mut Vec<Seg>, cs: &[Chunk], enc: &'static encoding_rs::Encoding) {
    for c in cs {
        push_bytes(out, &chunk_bytes(c, enc));
    }
}

pub struct Edits {
    pub elems: Vec<ElemMut>,
    /// per token index: comment / text-last-chunk / doctype mutations
    pub toks: Vec<TokMut>,
    /// per text token: remove every chunk
    pub text_removed: Vec<bool>,
    /// per comment token: new text
    pub comment_text: Vec<Option<String>>,
    pub doc_end: Vec<Chunk>,
}

impl Edits {
    pub fn new(d: &Doc, t: &Tree) -> Self {
        Edits { elems: vec![ElemMut::default(); t.elems.len()], toks: vec![TokMut::default(); d.toks.len()], text_removed: vec![false; d.toks.len()], comment_text: vec![None; d.toks.len()], doc_end: vec![] }
    }
}

/// Render the expected output as segments.
pub fn render(d: &Doc, t: &Tree, ed: &Edits) -> Vec<Seg> {
    let enc = d.enc;
    let mut out: Vec<Seg> = vec![];
    // removal regions: token index ranges (exclusive of the start tag, exclusive of the closing end tag)
    let mut skip_until: Option<usize> = None; // token index at which emission resumes (usize::MAX = never)
    for (i, tok) in d.toks.iter().enumerate() {
        if let Some(u) = skip_until {
            if i < u {
                continue;
            }
            skip_until = None;
        }
        let raw = &d.bytes[tok.start..tok.end];
        match tok.kind {
            TK::Start => {
                let e = t.tok_elem[i].unwrap();
                let el = &t.elems[e];
                let m = &ed.elems[e];
                push_chunks(&mut out, &m.s.before, enc);
                if m.s.removed {
                    push_chunks(&mut out, &m.s.replacement, enc);
                } else if m.touched_tag {
                    let attrs = m.attrs.clone().unwrap_or_else(|| el.attrs.iter().map(|a| (a.name_pc.clone(), a.value.clone())).collect());
                    out.push(Seg::Tag { is_end: false, name: m.new_name.clone().unwrap_or_else(|| el.name_pc.clone()), attrs, sc: if el.ns != Ns::Html { Some(el.self_closing) } else { None } });
                } else {
                    push_bytes(&mut out, raw);
                }
                push_chunks(&mut out, &m.s.after, enc);
                if m.remove_content && el.can_have_content {
                    skip_until = Some(el.closed_by.unwrap_or(usize::MAX));
                }
            }
            TK::End => {
                // the element whose own end tag this is (outermost closed element), if any
                let own = t.closes[i].last().copied().filter(|e| t.elems[*e].own_end);
                match own {
                    Some(e) => {
                        let mut m = ed.elems[e].e.clone();
                        let mut name = ed.elems[e].new_name.clone();
                        for op in &ed.elems[e].end_ops {
                            match op {
                                Op::SetTagName(n) => name = Some(n.clone()),
                                o => m.apply(o),
                            }
                        }
                        push_chunks(&mut out, &m.before, enc);
                        if m.removed {
                            push_chunks(&mut out, &m.replacement, enc);
                        } else if let Some(n) = name {
                            out.push(Seg::Tag { is_end: true, name: n, attrs: vec![], sc: None });
                        } else {
                            push_bytes(&mut out, raw);
                        }
                        push_chunks(&mut out, &m.after, enc);
                    }
                    None => push_bytes(&mut out, raw),
                }
            }
            TK::Comment => {
                let m = &ed.toks[i];
                push_chunks(&mut out, &m.before, enc);
                if m.removed {
                    push_chunks(&mut out, &m.replacement, enc);
                } else if let Some(txt) = &ed.comment_text[i] {
                    push_bytes(&mut out, b"<!--");
                    push_bytes(&mut out, &enc.encode(txt).0);
                    push_bytes(&mut out, b"-->");
                } else {
                    push_bytes(&mut out, raw);
                }
                push_chunks(&mut out, &m.after, enc);
            }
            TK::Text => {
                if !ed.text_removed[i] {
                    push_bytes(&mut out, raw);
                }
                // mutations of the final (empty) chunk of the node
                let m = &ed.toks[i];
                push_chunks(&mut out, &m.before, enc);
                if m.removed {
                    push_chunks(&mut out, &m.replacement, enc);
                }
                push_chunks(&mut out, &m.after, enc);
            }
            TK::Doctype => {
                if !ed.toks[i].removed {
                    push_bytes(&mut out, raw);
                }
            }
            TK::CdataMarker => push_bytes(&mut out, raw),
        }
    }
    push_chunks(&mut out, &ed.doc_end, enc);
    out
}

/// Compare actual output with the expected segments.
pub fn compare(actual: &[u8], segs: &[Seg], enc: &'static encoding_rs::Encoding) -> Result<(), String> {
    let mut pos = 0usize;
    let ctx = |pos: usize| crate::obs::show(&actual[pos.saturating_sub(20)..(pos + 30).min(actual.len())]);
    for (k, s) in segs.iter().enumerate() {
        match s {
            Seg::Bytes(b) => {
                if !actual[pos.min(actual.len())..].starts_with(b) {
                    let rest = &actual[pos.min(actual.len())..];
                    let d = rest.iter().zip(b.iter()).position(|(x, y)| x != y).unwrap_or(rest.len().min(b.len()));
                    return Err(format!("segment #{k}: output differs at byte {}: got {:?} expected {:?}", pos + d, ctx(pos + d), crate::obs::show(&b[d.saturating_sub(20)..(d + 30).min(b.len())])));
                }
                pos += b.len();
            }
            Seg::Tag { is_end, name, attrs, sc } => {
                let Some(rt) = parse_tag(actual, pos) else { return Err(format!("segment #{k}: expected a (re-serialised) tag <{}{name}> at byte {pos}, got {:?}", if *is_end { "/" } else { "" }, ctx(pos))) };
                let Some(end) = rt.end else { return Err(format!("segment #{k}: unterminated tag at byte {pos}: {:?}", ctx(pos))) };
                let dec = |r: (usize, usize)| enc.decode_without_bom_handling(&actual[r.0..r.1]).0.into_owned();
                if rt.is_end != *is_end || dec(rt.name) != *name {
                    return Err(format!("segment #{k}: tag at byte {pos} is {:?}, expected name {name:?} (end tag: {is_end})", crate::obs::show(&actual[pos..end])));
                }
                if !*is_end {
                    let got: Vec<(String, String)> = rt.attrs.iter().map(|a| (dec(a.name), dec(a.value))).collect();
                    let same = got.len() == attrs.len() && got.iter().zip(attrs.iter()).all(|(g, w)| g.0.eq_ignore_ascii_case(&w.0) && g.1 == w.1);
                    if !same {
                        return Err(format!("segment #{k}: attributes of the modified start tag {:?} are {got:?}, expected {attrs:?}", crate::obs::show(&actual[pos..end])));
                    }
                    if let Some(want) = sc {
                        if rt.self_closing != *want {
                            return Err(format!("segment #{k}: self-closing flag of foreign element {:?} changed (expected {want})", crate::obs::show(&actual[pos..end])));
                        }
                    }
                }
                pos = end;
            }
        }
    }
    if pos != actual.len() {
        return Err(format!("output has {} extra bytes after the expected end: {:?}", actual.len() - pos, ctx(pos)));
    }
    Ok(())
}
