//! R-h5: html5ever 0.39 tokenizer, alone (for single tags) or driven by a real tree builder
//! through a recording TokenSink proxy.
use html5ever::TokenizerResult;
use html5ever::tendril::StrTendril;
use html5ever::tokenizer::states::RawKind;
use html5ever::tokenizer::{BufferQueue, TagKind, Token as HToken, TokenSink, TokenSinkResult, Tokenizer, TokenizerOpts};
use html5ever::tree_builder::{TreeBuilder, TreeBuilderOpts};
use markup5ever_rcdom::RcDom;
use std::cell::RefCell;

#[derive(Debug, PartialEq, Eq, Clone)]
pub enum HT {
    /// text with the text type the tokenizer was in ("Data", "RCData", "RawText", "ScriptData", "PlainText", "CDataSection"?)
    Text(String, &'static str),
    Comment(String),
    Start { name: String, attrs: Vec<(String, String)>, sc: bool },
    End(String),
    Doctype { name: Option<String>, pid: Option<String>, sid: Option<String>, fq: bool },
}

struct Rec {
    toks: Vec<HT>,
    /// text type for characters that follow (set from the tree builder's feedback)
    mode: &'static str,
}

struct Proxy<'a, S> {
    inner: Option<S>,
    rec: RefCell<&'a mut Rec>,
}

impl<S> Proxy<'_, S> {
    fn text(&self, s: &str) {
        let rec = &mut **self.rec.borrow_mut();
        let mode = rec.mode;
        if let Some(HT::Text(l, m)) = rec.toks.last_mut() {
            if *m == mode {
                l.push_str(s);
                return;
            }
        }
        rec.toks.push(HT::Text(s.to_string(), mode));
    }
}

impl<S: TokenSink> TokenSink for Proxy<'_, S> {
    type Handle = S::Handle;
    fn process_token(&self, token: HToken, line: u64) -> TokenSinkResult<Self::Handle> {
        match &token {
            HToken::DoctypeToken(d) => self.rec.borrow_mut().toks.push(HT::Doctype {
                name: d.name.as_ref().map(|s| s.to_string()),
                pid: d.public_id.as_ref().map(|s| s.to_string()),
                sid: d.system_id.as_ref().map(|s| s.to_string()),
                fq: d.force_quirks,
            }),
            HToken::TagToken(tag) => {
                let name = tag.name.to_string();
                let mut rec = self.rec.borrow_mut();
                rec.mode = "Data";
                rec.toks.push(match tag.kind {
                    TagKind::StartTag => HT::Start { name, attrs: tag.attrs.iter().map(|a| (a.name.local.to_string(), a.value.to_string())).collect(), sc: tag.self_closing },
                    TagKind::EndTag => HT::End(name),
                });
            }
            HToken::CommentToken(s) => self.rec.borrow_mut().toks.push(HT::Comment(s.to_string())),
            HToken::CharacterTokens(s) if !s.is_empty() => self.text(s),
            HToken::NullCharacterToken => self.text("\0"),
            _ => {}
        }
        match &self.inner {
            Some(inner) => {
                let r = inner.process_token(token, line);
                match &r {
                    TokenSinkResult::RawData(k) => {
                        self.rec.borrow_mut().mode = match k {
                            RawKind::Rcdata => "RCData",
                            RawKind::Rawtext => "RawText",
                            RawKind::ScriptData => "ScriptData",
                            _ => "ScriptData",
                        }
                    }
                    TokenSinkResult::Plaintext => self.rec.borrow_mut().mode = "PlainText",
                    TokenSinkResult::Script(_) => {}
                    _ => {}
                }
                r
            }
            None => TokenSinkResult::Continue,
        }
    }
    fn end(&self) {
        if let Some(i) = &self.inner {
            i.end();
        }
    }
    fn adjusted_current_node_present_but_not_in_html_namespace(&self) -> bool {
        self.inner.as_ref().is_some_and(|i| i.adjusted_current_node_present_but_not_in_html_namespace())
    }
}

/// Tokens produced by the WHATWG tokenizer driven by a real tree builder.
pub fn tokens(input: &str) -> Vec<HT> {
    let mut rec = Rec { toks: vec![], mode: "Data" };
    let b = BufferQueue::default();
    b.push_back(StrTendril::from(input));
    {
        let tb = TreeBuilder::new(RcDom::default(), TreeBuilderOpts { scripting_enabled: true, ..Default::default() });
        let t = Tokenizer::new(Proxy { inner: Some(tb), rec: RefCell::new(&mut rec) }, TokenizerOpts { discard_bom: false, ..Default::default() });
        loop {
            match t.feed(&b) {
                TokenizerResult::Done => break,
                _ => continue,
            }
        }
        t.end();
    }
    rec.toks
}

struct NoSink;
impl TokenSink for NoSink {
    type Handle = ();
    fn process_token(&self, _: HToken, _: u64) -> TokenSinkResult<()> {
        TokenSinkResult::Continue
    }
}

/// Tokens of the bare tokenizer in the data state (for single tags in isolation).
pub fn tokens_plain(input: &str) -> Vec<HT> {
    let mut rec = Rec { toks: vec![], mode: "Data" };
    let b = BufferQueue::default();
    b.push_back(StrTendril::from(input));
    {
        let t = Tokenizer::new(Proxy::<NoSink> { inner: None, rec: RefCell::new(&mut rec) }, TokenizerOpts { discard_bom: false, ..Default::default() });
        let _ = t.feed(&b);
        t.end();
    }
    rec.toks
}
