//! R-css: selector AST (the supported grammar), renderer and a direct evaluator over R-tree
//! implementing CSS Selectors semantics as stated by property C04.
use crate::model::tree::{Elem, Tree};

#[derive(Clone, Debug, PartialEq, Eq)]
pub enum Simple {
    Type(String),
    Any,
    Id(String),
    Class(String),
    AttrExists(String),
    Attr { name: String, op: &'static str, val: String, flag: Option<char> },
    /// of_type, a, b, rendering style (0: an+b, 1: odd/even/first-* keyword when applicable)
    Nth { of_type: bool, a: i32, b: i32, style: u8 },
    Not(Vec<Vec<Simple>>),
}

/// compounds with the combinator to the NEXT compound (' ' or '>'); last combinator unused
#[derive(Clone, Debug, PartialEq, Eq)]
pub struct Complex {
    pub parts: Vec<(Vec<Simple>, char)>,
}

pub type SelList = Vec<Complex>;

fn render_nth(of_type: bool, a: i32, b: i32, style: u8, out: &mut String) {
    let f = if of_type { "of-type" } else { "child" };
    if style == 1 {
        if a == 0 && b == 1 {
            out.push_str(&format!(":first-{f}"));
            return;
        }
        if a == 2 && b == 1 {
            out.push_str(&format!(":nth-{f}(odd)"));
            return;
        }
        if a == 2 && b == 0 {
            out.push_str(&format!(":nth-{f}(even)"));
            return;
        }
        if a == 0 {
            out.push_str(&format!(":nth-{f}({b})"));
            return;
        }
    }
    out.push_str(&format!(":nth-{f}({a}n{b:+})"));
}

pub fn render_simple(s: &Simple, out: &mut String) {
    match s {
        Simple::Type(t) => out.push_str(t),
        Simple::Any => out.push('*'),
        Simple::Id(i) => {
            out.push('#');
            out.push_str(i)
        }
        Simple::Class(c) => {
            out.push('.');
            out.push_str(c)
        }
        Simple::AttrExists(n) => {
            out.push('[');
            out.push_str(n);
            out.push(']')
        }
        Simple::Attr { name, op, val, flag } => {
            out.push('[');
            out.push_str(name);
            out.push_str(op);
            out.push('"');
            out.push_str(val);
            out.push('"');
            if let Some(f) = flag {
                out.push(' ');
                out.push(*f);
            }
            out.push(']')
        }
        Simple::Nth { of_type, a, b, style } => render_nth(*of_type, *a, *b, *style, out),
        Simple::Not(list) => {
            out.push_str(":not(");
            for (i, c) in list.iter().enumerate() {
                if i > 0 {
                    out.push_str(", ");
                }
                for s in c {
                    render_simple(s, out);
                }
            }
            out.push(')')
        }
    }
}

pub fn render(l: &SelList) -> String {
    let mut out = String::new();
    for (i, c) in l.iter().enumerate() {
        if i > 0 {
            out.push_str(", ");
        }
        for (j, (comp, comb)) in c.parts.iter().enumerate() {
            for s in comp {
                render_simple(s, &mut out);
            }
            if j + 1 < c.parts.len() {
                out.push_str(if *comb == '>' { " > " } else { " " });
            }
        }
    }
    out
}

fn ws(c: char) -> bool {
    matches!(c, ' ' | '\t' | '\n' | '\r' | '\x0c')
}

fn attr<'a>(e: &'a Elem, name: &str) -> Option<&'a str> {
    e.attrs.iter().find(|a| a.name.eq_ignore_ascii_case(name)).map(|a| a.value.as_str())
}

pub fn nth(a: i32, b: i32, idx: i32) -> bool {
    // exists n >= 0 with a*n + b == idx
    let d = idx - b;
    if a == 0 { d == 0 } else { d % a == 0 && d / a >= 0 }
}

pub fn m_simple(s: &Simple, e: &Elem) -> bool {
    match s {
        Simple::Type(t) => e.name.eq_ignore_ascii_case(t),
        Simple::Any => true,
        Simple::Id(i) => attr(e, "id") == Some(i.as_str()),
        Simple::Class(c) => attr(e, "class").is_some_and(|v| v.split(ws).any(|p| p == c)),
        Simple::AttrExists(n) => attr(e, n).is_some(),
        Simple::Attr { name, op, val, flag } => {
            let Some(v) = attr(e, name) else { return false };
            let ci = *flag == Some('i');
            let (v, val) = if ci { (v.to_ascii_lowercase(), val.to_ascii_lowercase()) } else { (v.to_string(), val.clone()) };
            match *op {
                "=" => v == val,
                "~=" => !val.is_empty() && !val.contains(ws) && v.split(ws).any(|p| p == val),
                "|=" => v == val || v.starts_with(&format!("{val}-")),
                "^=" => !val.is_empty() && v.starts_with(&val),
                "$=" => !val.is_empty() && v.ends_with(&val),
                "*=" => !val.is_empty() && v.contains(&val),
                _ => unreachable!(),
            }
        }
        Simple::Nth { of_type, a, b, .. } => nth(*a, *b, if *of_type { e.type_index as i32 } else { e.child_index as i32 }),
        // :not() negates its whole argument: the element matches none of the compounds
        Simple::Not(list) => !list.iter().any(|c| c.iter().all(|s| m_simple(s, e))),
    }
}

pub fn m_complex(c: &Complex, t: &Tree, e: usize) -> bool {
    fn rec(parts: &[(Vec<Simple>, char)], t: &Tree, e: usize) -> bool {
        let (last, rest) = parts.split_last().unwrap();
        if !last.0.iter().all(|s| m_simple(s, &t.elems[e])) {
            return false;
        }
        if rest.is_empty() {
            return true;
        }
        let comb = rest.last().unwrap().1;
        let mut p = t.elems[e].parent;
        if comb == '>' {
            return p.is_some_and(|p| rec(rest, t, p));
        }
        while let Some(pp) = p {
            if rec(rest, t, pp) {
                return true;
            }
            p = t.elems[pp].parent;
        }
        false
    }
    rec(&c.parts, t, e)
}

pub fn matches(l: &SelList, t: &Tree, e: usize) -> bool {
    l.iter().any(|c| m_complex(c, t, e))
}

/// Signature of the open finding "C04-not-flattening": `:not()` whose argument at odd negation
/// depth is a compound of >= 2 simple selectors, or a nested `:not()` at even depth with a
/// list argument.
pub fn has_flattened_not(l: &SelList) -> bool {
    fn s(x: &Simple, depth: usize) -> bool {
        match x {
            Simple::Not(list) => {
                let d = depth + 1;
                let bad_here = if d % 2 == 1 { list.iter().any(|c| c.len() > 1) } else { list.len() > 1 };
                bad_here || list.iter().any(|c| c.iter().any(|y| s(y, d)))
            }
            _ => false,
        }
    }
    l.iter().any(|c| c.parts.iter().any(|(comp, _)| comp.iter().any(|x| s(x, 0))))
}

pub fn has_combinator(l: &SelList) -> bool {
    l.iter().any(|c| c.parts.len() > 1)
}

pub fn has_not_or_nth(l: &SelList) -> bool {
    fn s(x: &Simple) -> bool {
        matches!(x, Simple::Not(_) | Simple::Nth { .. })
    }
    l.iter().any(|c| c.parts.iter().any(|(comp, _)| comp.iter().any(s)))
}
