pub mod attr;
pub mod tree;
