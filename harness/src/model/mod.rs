pub mod attr;
pub mod css;
pub mod edit;
pub mod h5;
pub mod tree;
