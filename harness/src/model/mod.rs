pub mod attr;
pub mod h5;
pub mod tree;
