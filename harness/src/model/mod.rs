pub mod attr;
pub mod css;
pub mod h5;
pub mod tree;
