//! R-tree: the element tree that explicit tags induce, replayed from the flat token sequence:
//! an element is a child of the innermost element still open; it is closed by a matching end
//! tag (innermost open element of that name, ASCII case-insensitively), by an ancestor's end
//! tag, immediately if void (HTML namespace), or by self-closing syntax in foreign content.

use crate::gens::doc::{Doc, Ns, TK};
use crate::model::attr::{RTag, parse_tag};

pub const VOID: &[&str] = &["area", "base", "basefont", "bgsound", "br", "col", "embed", "hr", "img", "input", "keygen", "link", "meta", "param", "source", "track", "wbr"];

#[derive(Clone, Debug)]
pub struct RAttrV {
    pub name: String,
    pub name_pc: String,
    pub value: String,
    pub name_range: (usize, usize),
    pub value_range: (usize, usize),
}

#[derive(Clone, Debug)]
pub struct Elem {
    pub tok: usize,
    pub name: String,
    pub name_pc: String,
    pub ns: Ns,
    pub attrs: Vec<RAttrV>,
    pub self_closing: bool,
    pub can_have_content: bool,
    pub parent: Option<usize>,
    /// 1-based index among element siblings
    pub child_index: usize,
    /// 1-based index among element siblings with the same (lower-cased) name
    pub type_index: usize,
    /// token index of the end tag that closes it (None: void / self-closed / never closed)
    pub closed_by: Option<usize>,
    /// closed by an end tag of its own name that is *its* end tag (not an ancestor's)
    pub own_end: bool,
    pub depth: usize,
}

#[derive(Clone, Debug, Default)]
pub struct Tree {
    pub elems: Vec<Elem>,
    /// per token: element index for start tags
    pub tok_elem: Vec<Option<usize>>,
    /// per token: chain of open elements (outermost first) the token lies in. For a start tag:
    /// its ancestors; for an end tag: the elements open *before* it is processed.
    pub scope: Vec<Vec<usize>>,
    /// per end-tag token: the elements it closes, innermost first
    pub closes: Vec<Vec<usize>>,
    pub rtags: Vec<Option<RTag>>,
}

impl Elem {
    pub fn attr(&self, name: &str) -> Option<&RAttrV> {
        self.attrs.iter().find(|a| a.name.eq_ignore_ascii_case(name))
    }
}

pub fn lower(s: &str) -> String {
    s.to_ascii_lowercase()
}

pub fn induce(d: &Doc, esi: bool) -> Tree {
    let mut t = Tree { tok_elem: vec![None; d.toks.len()], scope: vec![vec![]; d.toks.len()], closes: vec![vec![]; d.toks.len()], rtags: vec![None; d.toks.len()], ..Default::default() };
    let mut open: Vec<usize> = vec![];
    // per open element (and root = usize::MAX): counters
    let mut child_counts: std::collections::HashMap<usize, (usize, std::collections::HashMap<String, usize>)> = Default::default();
    for (i, tok) in d.toks.iter().enumerate() {
        t.scope[i] = open.clone();
        match tok.kind {
            TK::Start => {
                let rt = parse_tag(&d.bytes, tok.start);
                let (attrs, sc) = match &rt {
                    Some(r) => (
                        r.attrs
                            .iter()
                            .map(|a| {
                                let n = d.decode(a.name);
                                RAttrV { name: lower(&n), name_pc: n, value: d.decode(a.value), name_range: a.name, value_range: a.value }
                            })
                            .collect::<Vec<_>>(),
                        r.self_closing,
                    ),
                    None => (vec![], false),
                };
                t.rtags[i] = rt;
                let name = lower(&tok.name);
                let parent = open.last().copied();
                let key = parent.unwrap_or(usize::MAX);
                let cc = child_counts.entry(key).or_default();
                cc.0 += 1;
                let child_index = cc.0;
                let tc = cc.1.entry(name.clone()).or_default();
                *tc += 1;
                let type_index = *tc;
                let is_void = tok.ns == Ns::Html && (VOID.contains(&name.as_str()) || (esi && (name == "esi:include" || name == "esi:comment")));
                let can_have_content = if tok.ns == Ns::Html { !is_void } else { !sc };
                let e = Elem { tok: i, name, name_pc: tok.name.clone(), ns: tok.ns, attrs, self_closing: sc, can_have_content, parent, child_index, type_index, closed_by: None, own_end: false, depth: open.len() };
                let idx = t.elems.len();
                t.elems.push(e);
                t.tok_elem[i] = Some(idx);
                if can_have_content {
                    open.push(idx);
                }
            }
            TK::End => {
                t.rtags[i] = parse_tag(&d.bytes, tok.start);
                let name = lower(&tok.name);
                if let Some(pos) = open.iter().rposition(|e| t.elems[*e].name == name) {
                    let closed: Vec<usize> = open.drain(pos..).rev().collect();
                    for (k, e) in closed.iter().enumerate() {
                        t.elems[*e].closed_by = Some(i);
                        t.elems[*e].own_end = k + 1 == closed.len();
                        child_counts.remove(e);
                    }
                    t.closes[i] = closed;
                }
            }
            _ => {}
        }
    }
    t
}
