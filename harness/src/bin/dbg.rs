use lolv::obs::*;
fn main() {
    let args: Vec<String> = std::env::args().skip(1).collect();
    let input = args[0].replace("\\0", "\0").replace("\\n", "\n").replace("\\r", "\r");
    let cuts: Vec<usize> = args.get(1).map(|s| s.split(',').filter(|x| !x.is_empty()).map(|x| x.parse().unwrap()).collect()).unwrap_or_default();
    let mut cfg = Cfg::default();
    let mode = args.get(2).map(|s| s.as_str()).unwrap_or("all");
    cfg.strict = mode.contains("strict");
    if mode.contains("none") {
    } else if mode.contains("sel:") {
        let sel = mode.split("sel:").nth(1).unwrap().to_string();
        cfg.sels.push(SelSpec { sel, el: true, end_tag: true, text: true, comments: true, ops: vec![] });
    } else {
        cfg.docs.push(DocSpec { doctype: true, comments: true, text: true, end: true, ops: vec![] });
        cfg.sels.push(SelSpec { sel: "*".into(), el: true, end_tag: true, text: false, comments: false, ops: vec![] });
    }
    let r = run(&split(input.as_bytes(), &cuts), &cfg);
    println!("result={:?} failed_call={:?}", r.result, r.failed_call);
    println!("out={:?}", show(&r.out));
    println!("out_after_write={:?}", r.out_after_write);
    for e in &r.events { println!("  {e:?}"); }
    for s in &r.sink { match s { SinkEv::Chunk(c) => println!("  chunk {:?}", show(c)), SinkEv::SetEncoding(e) => println!("  set_encoding {e}") } }
}
