fn main() {
    for s in std::env::args().skip(1) {
        let s = s.replace("\\0", "\0").replace("\\n", "\n");
        println!("INPUT {s:?}");
        for t in lolv::model::h5::tokens(&s) { println!("  h5  {t:?}"); }
        #[cfg(feature = "int")]
        match lolv::props::c03::lol(s.as_bytes(), &[], true, 0) { Ok(Ok(v)) => for t in v { println!("  lol {t:?}"); }, o => println!("  lol {o:?}") }
    }
}
