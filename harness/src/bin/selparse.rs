fn main() {
    for s in std::env::args().skip(1) {
        let r = std::panic::catch_unwind(|| s.parse::<lol_html::Selector>().map(|_| ()));
        println!("{s:?} => {:?}", r.map_err(|_| "PANIC"));
    }
}
