//! Observation layer: configurable handler sets that log every callback, an `OutputSink` that
//! logs every call, fault injection, and a scripted mutation facility.

use encoding_rs::Encoding;
use lol_html::errors::RewritingError;
use lol_html::html_content::*;
use lol_html::{
    AsciiCompatibleEncoding, DocumentContentHandlers, ElementContentHandlers, HtmlRewriter, MemorySettings, OutputSink, Selector, Settings,
};
use serde_json::{Value, json};
use std::borrow::Cow;
use std::cell::RefCell;
use std::rc::Rc;

pub type Loc = (usize, usize);

#[derive(Clone, Debug, PartialEq, Eq)]
pub struct AttrEv {
    pub name: String,
    pub name_pc: String,
    pub value: String,
    pub name_loc: Option<Loc>,
    pub value_loc: Option<Loc>,
}

#[derive(Clone, Debug, PartialEq, Eq)]
pub enum Ev {
    Doctype { h: String, name: Option<String>, pid: Option<String>, sid: Option<String>, loc: Loc },
    Comment { h: String, text: String, loc: Loc },
    Text { h: String, text: String, ttype: String, last: bool, loc: Loc },
    Element { h: String, name: String, name_pc: String, attrs: Vec<AttrEv>, ns: String, self_closing: bool, can_have_content: bool, loc: Loc },
    EndTag { h: String, name: String, name_pc: String, loc: Loc, el_loc: Loc },
    End { h: String },
    BailOut { h: String, err: String },
}

impl Ev {
    pub fn handler(&self) -> &str {
        match self {
            Ev::Doctype { h, .. } | Ev::Comment { h, .. } | Ev::Text { h, .. } | Ev::Element { h, .. } | Ev::EndTag { h, .. } | Ev::End { h } | Ev::BailOut { h, .. } => h,
        }
    }
    pub fn loc(&self) -> Option<Loc> {
        match self {
            Ev::Doctype { loc, .. } | Ev::Comment { loc, .. } | Ev::Text { loc, .. } | Ev::Element { loc, .. } | Ev::EndTag { loc, .. } => Some(*loc),
            _ => None,
        }
    }
    pub fn to_json(&self) -> Value {
        json!(format!("{self:?}"))
    }
}

#[derive(Clone, Copy, Debug, PartialEq, Eq)]
pub enum CT {
    Html,
    Text,
}

impl CT {
    pub fn ct(self) -> ContentType {
        match self {
            CT::Html => ContentType::Html,
            CT::Text => ContentType::Text,
        }
    }
}

#[derive(Clone, Copy, Debug, PartialEq, Eq, Hash)]
pub enum Kind {
    Element,
    EndTag,
    Text,
    Comment,
    Doctype,
    DocEnd,
}

/// One scripted API call.
#[derive(Clone, Debug, PartialEq, Eq)]
pub enum Op {
    Before(String, CT),
    After(String, CT),
    Prepend(String, CT),
    Append(String, CT),
    SetInner(String, CT),
    Replace(String, CT),
    Remove,
    RemoveKeep,
    SetAttr(String, String),
    RemoveAttr(String),
    SetTagName(String),
    SetText(String),
    /// start tag only mutations via `Element::start_tag()`
    StartBefore(String, CT),
    StartAfter(String, CT),
    StartReplace(String, CT),
    StartRemove,
    /// streaming variants (content produced by a StreamingHandler in pieces)
    StreamBefore(Vec<String>, CT),
    StreamAfter(Vec<String>, CT),
    StreamReplace(Vec<String>, CT),
    StreamPrepend(Vec<String>, CT),
    StreamAppend(Vec<String>, CT),
    StreamSetInner(Vec<String>, CT),
    /// attach an end tag handler that performs these ops on the end tag
    OnEndTag(Vec<Op>),
    /// make the handler fail after performing preceding ops
    Fail,
}

/// `nth`: apply only to the nth token of that kind this handler sees (text: counted per text
/// node, applied on the `last_in_text_node` chunk unless `every_chunk`); `None` = every token.
#[derive(Clone, Debug, PartialEq, Eq)]
pub struct ScriptOp {
    pub kind: Kind,
    pub nth: Option<usize>,
    pub every_chunk: bool,
    pub op: Op,
}

#[derive(Clone, Debug, Default, PartialEq, Eq)]
pub struct SelSpec {
    pub sel: String,
    pub el: bool,
    pub end_tag: bool,
    pub text: bool,
    pub comments: bool,
    pub ops: Vec<ScriptOp>,
}

#[derive(Clone, Debug, Default, PartialEq, Eq)]
pub struct DocSpec {
    pub doctype: bool,
    pub comments: bool,
    pub text: bool,
    pub end: bool,
    pub ops: Vec<ScriptOp>,
}

#[derive(Clone, Debug)]
pub struct Cfg {
    pub sels: Vec<SelSpec>,
    pub docs: Vec<DocSpec>,
    /// bail-out handlers: content each appends (None = observe only)
    pub bail_outs: Vec<Option<String>>,
    pub encoding: &'static Encoding,
    pub strict: bool,
    pub esi: bool,
    pub adjust_charset: bool,
    pub max_mem: usize,
    pub prealloc: usize,
    pub graceful_mem: bool,
    pub graceful_handler: bool,
    /// 1-based index of the handler invocation that returns Err (content handlers only)
    pub fail_at: Option<usize>,
    /// 0-based index of the streaming content writer (`streaming_*` mutations) whose `write_all`
    /// returns Err after writing its first piece: a failure during token emission, not in a handler
    pub fail_stream_at: Option<usize>,
}

impl Default for Cfg {
    fn default() -> Self {
        Cfg {
            sels: vec![],
            docs: vec![],
            bail_outs: vec![],
            encoding: encoding_rs::UTF_8,
            strict: false,
            esi: false,
            adjust_charset: false,
            max_mem: usize::MAX,
            prealloc: 0,
            graceful_mem: false,
            graceful_handler: false,
            fail_at: None,
            fail_stream_at: None,
        }
    }
}

impl Cfg {
    pub fn has_handlers(&self) -> bool {
        !self.sels.is_empty() || !self.docs.is_empty()
    }
    pub fn has_text_handler(&self) -> bool {
        self.sels.iter().any(|s| s.text || s.ops.iter().any(|o| o.kind == Kind::Text)) || self.docs.iter().any(|d| d.text || d.ops.iter().any(|o| o.kind == Kind::Text))
    }
    pub fn mutates(&self) -> bool {
        self.sels.iter().any(|s| !s.ops.is_empty()) || self.docs.iter().any(|d| !d.ops.is_empty())
    }
    pub fn to_json(&self) -> Value {
        json!({
            "sels": self.sels.iter().map(|s| json!({"sel": s.sel, "el": s.el, "end_tag": s.end_tag, "text": s.text, "comments": s.comments, "ops": s.ops.iter().map(|o| format!("{o:?}")).collect::<Vec<_>>()})).collect::<Vec<_>>(),
            "docs": self.docs.iter().map(|d| json!({"doctype": d.doctype, "comments": d.comments, "text": d.text, "end": d.end, "ops": d.ops.iter().map(|o| format!("{o:?}")).collect::<Vec<_>>()})).collect::<Vec<_>>(),
            "bail_outs": self.bail_outs,
            "encoding": self.encoding.name(), "strict": self.strict, "esi": self.esi, "adjust_charset": self.adjust_charset,
            "max_mem": if self.max_mem == usize::MAX { json!("max") } else { json!(self.max_mem) }, "prealloc": self.prealloc,
            "graceful_mem": self.graceful_mem, "graceful_handler": self.graceful_handler, "fail_at": self.fail_at, "fail_stream_at": self.fail_stream_at,
        })
    }
}

#[derive(Clone, Debug, PartialEq, Eq)]
pub enum SinkEv {
    SetEncoding(&'static str),
    Chunk(Vec<u8>),
}

#[derive(Clone, Debug, PartialEq, Eq)]
pub enum ErrKind {
    Mem,
    Ambiguity(String),
    Handler(String),
    Panic(String),
}

impl ErrKind {
    pub fn short(&self) -> &'static str {
        match self {
            ErrKind::Mem => "mem",
            ErrKind::Ambiguity(_) => "ambiguity",
            ErrKind::Handler(_) => "handler",
            ErrKind::Panic(_) => "PANIC",
        }
    }
    pub fn from(e: &RewritingError) -> Self {
        match e {
            RewritingError::MemoryLimitExceeded(_) => ErrKind::Mem,
            RewritingError::ParsingAmbiguity(a) => ErrKind::Ambiguity(a.to_string().chars().take(80).collect()),
            RewritingError::ContentHandlerError(h) => ErrKind::Handler(h.to_string()),
            _ => ErrKind::Handler("unknown RewritingError variant".into()),
        }
    }
}

#[derive(Default)]
pub struct Shared {
    pub events: Vec<Ev>,
    pub sink: Vec<SinkEv>,
    pub out_len: usize,
    pub invocations: usize,
    pub fail_at: Option<usize>,
    pub injected: bool,
    /// where the injected fault happened: (handler id, kind, index of the chunk inside its
    /// text node for text handlers)
    pub injected_where: Option<(String, Kind, usize)>,
    /// chunks seen so far in the current text node, per handler
    pub chunk_idx: std::collections::HashMap<String, usize>,
    /// per (handler id, kind) counters for `nth`
    pub counters: std::collections::HashMap<(String, Kind), usize>,
}

pub type Sh = Rc<RefCell<Shared>>;

pub struct LogSink(pub Sh);

impl OutputSink for LogSink {
    fn handle_chunk(&mut self, chunk: &[u8]) {
        let mut s = self.0.borrow_mut();
        s.out_len += chunk.len();
        s.sink.push(SinkEv::Chunk(chunk.to_vec()));
    }
    fn set_encoding(&mut self, enc: AsciiCompatibleEncoding) {
        let e: &'static Encoding = enc.into();
        self.0.borrow_mut().sink.push(SinkEv::SetEncoding(e.name()));
    }
}

pub const INJECTED: &str = "injected-fault";

fn tick(sh: &Sh, h: &str, kind: Kind, last_chunk: bool) -> Result<(), Box<dyn std::error::Error + Send + Sync>> {
    let mut s = sh.borrow_mut();
    s.invocations += 1;
    let mut idx = 0;
    if kind == Kind::Text {
        let e = s.chunk_idx.entry(h.to_string()).or_insert(0);
        idx = *e;
        if last_chunk { *e = 0 } else { *e += 1 }
    }
    if s.fail_at == Some(s.invocations) {
        s.injected = true;
        s.injected_where = Some((h.to_string(), kind, idx));
        return Err(INJECTED.into());
    }
    Ok(())
}

fn loc(l: SourceLocation) -> Loc {
    let r = l.bytes();
    (r.start, r.end)
}

/// Per-run bookkeeping of streaming content writers (they run during token emission, on the
/// thread of the rewriter): how many ran, and which one is told to fail.
#[derive(Default)]
pub struct StreamFault {
    pub calls: std::sync::atomic::AtomicUsize,
    pub fail_at: Option<usize>,
    pub failed: std::sync::atomic::AtomicBool,
}

thread_local! {
    static STREAM_FAULT: RefCell<Option<std::sync::Arc<StreamFault>>> = const { RefCell::new(None) };
}

fn arm_stream_fault(fail_at: Option<usize>) -> std::sync::Arc<StreamFault> {
    let f = std::sync::Arc::new(StreamFault { fail_at, ..Default::default() });
    STREAM_FAULT.with(|s| *s.borrow_mut() = Some(f.clone()));
    f
}

struct Pieces(Vec<String>, CT, Option<std::sync::Arc<StreamFault>>);
impl StreamingHandler for Pieces {
    fn write_all(self: Box<Self>, sink: &mut StreamingHandlerSink<'_>) -> Result<(), Box<dyn std::error::Error + Send + Sync>> {
        use std::sync::atomic::Ordering;
        let fail = match &self.2 {
            Some(f) => {
                let k = f.calls.fetch_add(1, Ordering::SeqCst);
                let hit = f.fail_at == Some(k);
                if hit {
                    f.failed.store(true, Ordering::SeqCst);
                }
                hit
            }
            None => false,
        };
        for (i, p) in self.0.iter().enumerate() {
            if fail && i == 1 {
                break;
            }
            sink.write_str(p, self.1.ct());
        }
        if fail { Err("scripted-stream-fail".into()) } else { Ok(()) }
    }
}

fn stream(p: &[String], ct: CT) -> Box<dyn StreamingHandler + Send + 'static> {
    Box::new(Pieces(p.to_vec(), ct, STREAM_FAULT.with(|s| s.borrow().clone())))
}

/// which ops apply to the current token
fn due(sh: &Sh, h: &str, kind: Kind, ops: &[ScriptOp], counts: bool, is_last_chunk: bool) -> Vec<Op> {
    let mut s = sh.borrow_mut();
    let c = s.counters.entry((h.to_string(), kind)).or_insert(0);
    let idx = *c;
    if counts {
        *c += 1;
    }
    ops.iter()
        .filter(|o| o.kind == kind && o.nth.is_none_or(|n| n == idx) && (kind != Kind::Text || o.every_chunk || is_last_chunk))
        .map(|o| o.op.clone())
        .collect()
}

type HR = Result<(), Box<dyn std::error::Error + Send + Sync>>;

fn apply_end_tag(e: &mut EndTag<'_>, ops: &[Op]) -> HR {
    for op in ops {
        match op {
            Op::Before(s, c) => e.before(s, c.ct()),
            Op::After(s, c) => e.after(s, c.ct()),
            Op::Replace(s, c) => e.replace(s, c.ct()),
            Op::Remove => e.remove(),
            Op::SetTagName(n) => e.set_name_str(n.clone()),
            Op::StreamBefore(p, c) => e.streaming_before(stream(p, *c)),
            Op::StreamAfter(p, c) => e.streaming_after(stream(p, *c)),
            Op::StreamReplace(p, c) => e.streaming_replace(stream(p, *c)),
            Op::Fail => return Err("scripted-fail".into()),
            _ => {}
        }
    }
    Ok(())
}

/// API call results of fallible setters are logged as pseudo events so that oracles can see them.
fn apply_element(sh: &Sh, h: &str, el: &mut Element<'_, '_>, ops: &[Op]) -> HR {
    for op in ops {
        match op {
            Op::Before(s, c) => el.before(s, c.ct()),
            Op::After(s, c) => el.after(s, c.ct()),
            Op::Prepend(s, c) => el.prepend(s, c.ct()),
            Op::Append(s, c) => el.append(s, c.ct()),
            Op::SetInner(s, c) => el.set_inner_content(s, c.ct()),
            Op::Replace(s, c) => el.replace(s, c.ct()),
            Op::Remove => el.remove(),
            Op::RemoveKeep => el.remove_and_keep_content(),
            Op::SetAttr(n, v) => {
                let r = el.set_attribute(n, v);
                sh.borrow_mut().events.push(Ev::BailOut { h: format!("{h}.set_attribute"), err: format!("{r:?}") });
            }
            Op::RemoveAttr(n) => el.remove_attribute(n),
            Op::SetTagName(n) => {
                let r = el.set_tag_name(n);
                sh.borrow_mut().events.push(Ev::BailOut { h: format!("{h}.set_tag_name"), err: format!("{r:?}") });
            }
            Op::StartBefore(s, c) => el.start_tag().before(s, c.ct()),
            Op::StartAfter(s, c) => el.start_tag().after(s, c.ct()),
            Op::StartReplace(s, c) => el.start_tag().replace(s, c.ct()),
            Op::StartRemove => el.start_tag().remove(),
            Op::StreamBefore(p, c) => el.streaming_before(stream(p, *c)),
            Op::StreamAfter(p, c) => el.streaming_after(stream(p, *c)),
            Op::StreamReplace(p, c) => el.streaming_replace(stream(p, *c)),
            Op::StreamPrepend(p, c) => el.streaming_prepend(stream(p, *c)),
            Op::StreamAppend(p, c) => el.streaming_append(stream(p, *c)),
            Op::StreamSetInner(p, c) => el.streaming_set_inner_content(stream(p, *c)),
            Op::OnEndTag(eops) => {
                let eops = eops.clone();
                if let Some(hs) = el.end_tag_handlers() {
                    hs.push(Box::new(move |e: &mut EndTag<'_>| apply_end_tag(e, &eops)) as _);
                }
            }
            Op::Fail => return Err("scripted-fail".into()),
            Op::SetText(_) => {}
        }
    }
    Ok(())
}

fn apply_comment(sh: &Sh, h: &str, c: &mut Comment<'_>, ops: &[Op]) -> HR {
    for op in ops {
        match op {
            Op::Before(s, t) => c.before(s, t.ct()),
            Op::After(s, t) => c.after(s, t.ct()),
            Op::Replace(s, t) => c.replace(s, t.ct()),
            Op::Remove => c.remove(),
            Op::SetText(s) => {
                let r = c.set_text(s);
                sh.borrow_mut().events.push(Ev::BailOut { h: format!("{h}.set_text"), err: format!("{r:?}") });
            }
            Op::StreamBefore(p, t) => c.streaming_before(stream(p, *t)),
            Op::StreamAfter(p, t) => c.streaming_after(stream(p, *t)),
            Op::StreamReplace(p, t) => c.streaming_replace(stream(p, *t)),
            Op::Fail => return Err("scripted-fail".into()),
            _ => {}
        }
    }
    Ok(())
}

fn apply_text(t: &mut TextChunk<'_>, ops: &[Op]) -> HR {
    for op in ops {
        match op {
            Op::Before(s, c) => t.before(s, c.ct()),
            Op::After(s, c) => t.after(s, c.ct()),
            Op::Replace(s, c) => t.replace(s, c.ct()),
            Op::Remove => t.remove(),
            Op::SetText(s) => t.set_str(s.clone()),
            Op::StreamBefore(p, c) => t.streaming_before(stream(p, *c)),
            Op::StreamAfter(p, c) => t.streaming_after(stream(p, *c)),
            Op::StreamReplace(p, c) => t.streaming_replace(stream(p, *c)),
            Op::Fail => return Err("scripted-fail".into()),
            _ => {}
        }
    }
    Ok(())
}

fn element_ev(h: &str, el: &Element<'_, '_>) -> Ev {
    Ev::Element {
        h: h.to_string(),
        name: el.tag_name(),
        name_pc: el.tag_name_preserve_case(),
        attrs: el
            .attributes()
            .iter()
            .map(|a| AttrEv { name: a.name(), name_pc: a.name_preserve_case(), value: a.value(), name_loc: a.name_source_location().map(loc), value_loc: a.value_source_location().map(loc) })
            .collect(),
        ns: el.namespace_uri().to_string(),
        self_closing: el.is_self_closing(),
        can_have_content: el.can_have_content(),
        loc: loc(el.source_location()),
    }
}

/// The two public settings types take handlers through the same three builder methods.
pub trait HandlerHost<'h>: Sized {
    fn add_el(self, sel: Selector, h: ElementContentHandlers<'h>) -> Self;
    fn add_doc(self, h: DocumentContentHandlers<'h>) -> Self;
    fn add_bail(self, f: Box<dyn FnMut(&RewritingError, &mut BailOut<'_>) + 'h>) -> Self;
}

impl<'h> HandlerHost<'h> for Settings<'h, 'static> {
    fn add_el(self, sel: Selector, h: ElementContentHandlers<'h>) -> Self {
        self.append_element_content_handler((Cow::Owned(sel), h))
    }
    fn add_doc(self, h: DocumentContentHandlers<'h>) -> Self {
        self.append_document_content_handler(h)
    }
    fn add_bail(self, mut f: Box<dyn FnMut(&RewritingError, &mut BailOut<'_>) + 'h>) -> Self {
        self.append_bail_out_handler(move |e: &RewritingError, b: &mut BailOut<'_>| f(e, b))
    }
}

impl<'h> HandlerHost<'h> for lol_html::RewriteStrSettings<'h, 'static> {
    fn add_el(self, sel: Selector, h: ElementContentHandlers<'h>) -> Self {
        self.append_element_content_handler((Cow::Owned(sel), h))
    }
    fn add_doc(self, h: DocumentContentHandlers<'h>) -> Self {
        self.append_document_content_handler(h)
    }
    fn add_bail(self, mut f: Box<dyn FnMut(&RewritingError, &mut BailOut<'_>) + 'h>) -> Self {
        self.append_bail_out_handler(move |e: &RewritingError, b: &mut BailOut<'_>| f(e, b))
    }
}

pub fn build_settings<'h>(cfg: &Cfg, sh: &Sh) -> Result<Settings<'h, 'static>, String> {
    let st = Settings::new()
        .with_encoding(AsciiCompatibleEncoding::new(cfg.encoding).ok_or("non-ascii-compatible encoding")?)
        .with_strict(cfg.strict)
        .with_enable_esi_tags(cfg.esi)
        .with_adjust_charset_on_meta_tag(cfg.adjust_charset)
        .with_graceful_bail_out_on_content_handler_error(cfg.graceful_handler)
        .with_memory_settings(
            MemorySettings::new()
                .with_max_allowed_memory_usage(cfg.max_mem)
                .with_preallocated_parsing_buffer_size(cfg.prealloc)
                .with_graceful_bail_out_on_memory_limit_exceeded(cfg.graceful_mem),
        );
    add_handlers(st, cfg, sh)
}

/// `RewriteStrSettings` carrying the same handlers, `strict` and `enable_esi_tags` (its only options).
pub fn build_str_settings<'h>(cfg: &Cfg, sh: &Sh) -> Result<lol_html::RewriteStrSettings<'h, 'static>, String> {
    add_handlers(lol_html::RewriteStrSettings::new().with_strict(cfg.strict).with_enable_esi_tags(cfg.esi), cfg, sh)
}

fn add_handlers<'h, S: HandlerHost<'h>>(mut st: S, cfg: &Cfg, sh: &Sh) -> Result<S, String> {
    for (i, s) in cfg.sels.iter().enumerate() {
        let sel: Selector = s.sel.parse().map_err(|e| format!("selector {:?}: {e}", s.sel))?;
        let mut h = ElementContentHandlers::default();
        let hid = format!("s{i}");
        if s.el || s.end_tag || s.ops.iter().any(|o| o.kind == Kind::Element || o.kind == Kind::EndTag) {
            let (sh2, hid2, ops, want_el, want_end) = (sh.clone(), hid.clone(), s.ops.clone(), s.el, s.end_tag);
            h = h.element(move |el: &mut Element<'_, '_>| {
                tick(&sh2, &hid2, Kind::Element, true)?;
                let ev = element_ev(&hid2, el);
                let el_loc = ev.loc().unwrap();
                if want_el {
                    sh2.borrow_mut().events.push(ev);
                }
                let endops = due(&sh2, &hid2, Kind::EndTag, &ops, true, true);
                if want_end || !endops.is_empty() {
                    if let Some(hs) = el.end_tag_handlers() {
                        let (sh3, hid3) = (sh2.clone(), hid2.clone());
                        hs.push(Box::new(move |e: &mut EndTag<'_>| {
                            tick(&sh3, &hid3, Kind::EndTag, true)?;
                            if want_end {
                                sh3.borrow_mut().events.push(Ev::EndTag { h: hid3.clone(), name: e.name(), name_pc: e.name_preserve_case(), loc: loc(e.source_location()), el_loc });
                            }
                            apply_end_tag(e, &endops)
                        }) as _);
                    }
                }
                let d = due(&sh2, &hid2, Kind::Element, &ops, true, true);
                apply_element(&sh2, &hid2, el, &d)
            });
        }
        if s.text || s.ops.iter().any(|o| o.kind == Kind::Text) {
            let (sh2, hid2, ops, want) = (sh.clone(), hid.clone(), s.ops.clone(), s.text);
            h = h.text(move |t: &mut TextChunk<'_>| {
                tick(&sh2, &hid2, Kind::Text, t.last_in_text_node())?;
                if want {
                    sh2.borrow_mut().events.push(Ev::Text { h: hid2.clone(), text: t.as_str().to_string(), ttype: format!("{:?}", t.text_type()), last: t.last_in_text_node(), loc: loc(t.source_location()) });
                }
                let d = due(&sh2, &hid2, Kind::Text, &ops, t.last_in_text_node(), t.last_in_text_node());
                apply_text(t, &d)
            });
        }
        if s.comments || s.ops.iter().any(|o| o.kind == Kind::Comment) {
            let (sh2, hid2, ops, want) = (sh.clone(), hid.clone(), s.ops.clone(), s.comments);
            h = h.comments(move |c: &mut Comment<'_>| {
                tick(&sh2, &hid2, Kind::Comment, true)?;
                if want {
                    sh2.borrow_mut().events.push(Ev::Comment { h: hid2.clone(), text: c.text(), loc: loc(c.source_location()) });
                }
                let d = due(&sh2, &hid2, Kind::Comment, &ops, true, true);
                apply_comment(&sh2, &hid2, c, &d)
            });
        }
        st = st.add_el(sel, h);
    }
    for (i, d) in cfg.docs.iter().enumerate() {
        let mut h = DocumentContentHandlers::default();
        let hid = format!("d{i}");
        if d.doctype || d.ops.iter().any(|o| o.kind == Kind::Doctype) {
            let (sh2, hid2, ops, want) = (sh.clone(), hid.clone(), d.ops.clone(), d.doctype);
            h = h.doctype(move |dt: &mut Doctype<'_>| {
                tick(&sh2, &hid2, Kind::Doctype, true)?;
                if want {
                    sh2.borrow_mut().events.push(Ev::Doctype { h: hid2.clone(), name: dt.name(), pid: dt.public_id(), sid: dt.system_id(), loc: loc(dt.source_location()) });
                }
                for op in due(&sh2, &hid2, Kind::Doctype, &ops, true, true) {
                    match op {
                        Op::Remove => dt.remove(),
                        Op::Fail => return Err("scripted-fail".into()),
                        _ => {}
                    }
                }
                Ok(())
            });
        }
        if d.comments || d.ops.iter().any(|o| o.kind == Kind::Comment) {
            let (sh2, hid2, ops, want) = (sh.clone(), hid.clone(), d.ops.clone(), d.comments);
            h = h.comments(move |c: &mut Comment<'_>| {
                tick(&sh2, &hid2, Kind::Comment, true)?;
                if want {
                    sh2.borrow_mut().events.push(Ev::Comment { h: hid2.clone(), text: c.text(), loc: loc(c.source_location()) });
                }
                let dd = due(&sh2, &hid2, Kind::Comment, &ops, true, true);
                apply_comment(&sh2, &hid2, c, &dd)
            });
        }
        if d.text || d.ops.iter().any(|o| o.kind == Kind::Text) {
            let (sh2, hid2, ops, want) = (sh.clone(), hid.clone(), d.ops.clone(), d.text);
            h = h.text(move |t: &mut TextChunk<'_>| {
                tick(&sh2, &hid2, Kind::Text, t.last_in_text_node())?;
                if want {
                    sh2.borrow_mut().events.push(Ev::Text { h: hid2.clone(), text: t.as_str().to_string(), ttype: format!("{:?}", t.text_type()), last: t.last_in_text_node(), loc: loc(t.source_location()) });
                }
                let dd = due(&sh2, &hid2, Kind::Text, &ops, t.last_in_text_node(), t.last_in_text_node());
                apply_text(t, &dd)
            });
        }
        if d.end || d.ops.iter().any(|o| o.kind == Kind::DocEnd) {
            let (sh2, hid2, ops, want) = (sh.clone(), hid.clone(), d.ops.clone(), d.end);
            h = h.end(move |e: &mut DocumentEnd<'_>| {
                tick(&sh2, &hid2, Kind::DocEnd, true)?;
                if want {
                    sh2.borrow_mut().events.push(Ev::End { h: hid2.clone() });
                }
                for op in ops.iter().filter(|o| o.kind == Kind::DocEnd) {
                    match &op.op {
                        Op::Append(s, c) => e.append(s, c.ct()),
                        Op::Fail => return Err("scripted-fail".into()),
                        _ => {}
                    }
                }
                Ok(())
            });
        }
        st = st.add_doc(h);
    }
    for (i, b) in cfg.bail_outs.iter().enumerate() {
        let (sh2, content) = (sh.clone(), b.clone());
        st = st.add_bail(Box::new(move |err: &RewritingError, bo: &mut BailOut<'_>| {
            sh2.borrow_mut().events.push(Ev::BailOut { h: format!("b{i}"), err: ErrKind::from(err).short().to_string() });
            if let Some(c) = &content {
                bo.append(c, ContentType::Html);
            }
        }));
    }
    Ok(st)
}

#[derive(Debug, Clone)]
pub struct RunOut {
    pub result: Result<(), ErrKind>,
    /// index of the call that failed (number of writes = the end() call)
    pub failed_call: Option<usize>,
    pub sink: Vec<SinkEv>,
    pub out: Vec<u8>,
    /// cumulative output length after each successful write() returned
    pub out_after_write: Vec<usize>,
    /// accounted memory after each successful write (hooks feature; 0 otherwise)
    pub mem_after_write: Vec<usize>,
    pub events: Vec<Ev>,
    pub invocations: usize,
    pub injected: bool,
    pub injected_where: Option<(String, Kind, usize)>,
    /// sink length (number of sink calls) at the time the failing call returned
    pub sink_calls_at_error: Option<usize>,
    /// streaming content writers that ran / whether the scripted one failed
    pub stream_calls: usize,
    pub stream_failed: bool,
}

impl RunOut {
    pub fn kind(&self) -> &'static str {
        match &self.result {
            Ok(()) => "ok",
            Err(e) => e.short(),
        }
    }
    pub fn panicked(&self) -> Option<&str> {
        match &self.result {
            Err(ErrKind::Panic(m)) => Some(m),
            _ => None,
        }
    }
}

pub fn concat_sink(s: &[SinkEv]) -> Vec<u8> {
    let mut v = Vec::new();
    for e in s {
        if let SinkEv::Chunk(c) = e {
            v.extend_from_slice(c);
        }
    }
    v
}

/// Run a rewriter over `chunks` (then `end()`), with panics caught.
pub fn run(chunks: &[&[u8]], cfg: &Cfg) -> RunOut {
    run_ext(chunks, cfg, false)
}

/// `poke_after_error`: after a failing call, call `write(b"x")` again (expected to panic) and
/// record whether the sink was touched (for C12).
pub fn run_ext(chunks: &[&[u8]], cfg: &Cfg, poke_after_error: bool) -> RunOut {
    run_with(chunks, cfg, poke_after_error, &mut |_| {})
}

/// `between(i)` is called before write #i (used to interleave threads).
pub fn run_with(chunks: &[&[u8]], cfg: &Cfg, poke_after_error: bool, between: &mut dyn FnMut(usize)) -> RunOut {
    let sh: Sh = Rc::new(RefCell::new(Shared { fail_at: cfg.fail_at, ..Default::default() }));
    let stream_fault = arm_stream_fault(cfg.fail_stream_at);
    let sh_outer = sh.clone();
    let mut out_after_write = vec![];
    let mut mem_after_write = vec![];
    let mut failed_call = None;
    let mut sink_calls_at_error = None;
    let res = crate::engine::guard(|| -> Result<(), ErrKind> {
        let settings = build_settings(cfg, &sh).map_err(ErrKind::Handler)?;
        let mut rw = HtmlRewriter::new(settings, LogSink(sh.clone()));
        for (i, c) in chunks.iter().enumerate() {
            between(i);
            match rw.write(c) {
                Ok(()) => {
                    out_after_write.push(sh.borrow().out_len);
                    #[cfg(feature = "hooks")]
                    mem_after_write.push(rw.verif_memory_usage().0);
                    #[cfg(not(feature = "hooks"))]
                    mem_after_write.push(0);
                }
                Err(e) => {
                    failed_call = Some(i);
                    sink_calls_at_error = Some(sh.borrow().sink.len());
                    if poke_after_error {
                        let r = crate::engine::guard(|| {
                            let _ = rw.write(b"<p>poke</p>");
                        });
                        if r.is_ok() {
                            return Err(ErrKind::Panic("write() after an error did not panic".into()));
                        }
                    }
                    return Err(ErrKind::from(&e));
                }
            }
        }
        match rw.end() {
            Ok(()) => Ok(()),
            Err(e) => {
                failed_call = Some(chunks.len());
                sink_calls_at_error = Some(sh.borrow().sink.len());
                Err(ErrKind::from(&e))
            }
        }
    });
    let result = match res {
        Ok(r) => r,
        Err(p) => Err(ErrKind::Panic(p)),
    };
    let s = std::mem::take(&mut *sh_outer.borrow_mut());
    RunOut {
        result,
        failed_call,
        out: concat_sink(&s.sink),
        sink: s.sink,
        out_after_write,
        mem_after_write,
        events: s.events,
        invocations: s.invocations,
        injected: s.injected,
        injected_where: s.injected_where,
        sink_calls_at_error,
        stream_calls: stream_fault.calls.load(std::sync::atomic::Ordering::SeqCst),
        stream_failed: stream_fault.failed.load(std::sync::atomic::Ordering::SeqCst),
    }
}

/// The one-shot entry point `lol_html::rewrite_str` with the same handler configuration (it
/// forces UTF-8 and ignores `<meta charset>`): result kind, output and events. The caller passes
/// valid UTF-8 and a UTF-8 / adjust_charset=false configuration to compare with `run`.
pub fn run_str(input: &str, cfg: &Cfg) -> (Result<(), ErrKind>, Vec<u8>, Vec<Ev>) {
    run_str_via(input, cfg, false)
}

/// `via_str_settings`: pass a `RewriteStrSettings` (handlers, strict, enable_esi_tags only)
/// instead of a full `Settings`.
pub fn run_str_via(input: &str, cfg: &Cfg, via_str_settings: bool) -> (Result<(), ErrKind>, Vec<u8>, Vec<Ev>) {
    let sh: Sh = Rc::new(RefCell::new(Shared { fail_at: cfg.fail_at, ..Default::default() }));
    let sh_outer = sh.clone();
    let _stream_fault = arm_stream_fault(cfg.fail_stream_at);
    let res = crate::engine::guard(|| -> Result<String, ErrKind> {
        if via_str_settings {
            let settings = build_str_settings(cfg, &sh).map_err(ErrKind::Handler)?;
            lol_html::rewrite_str(input, settings).map_err(|e| ErrKind::from(&e))
        } else {
            let settings = build_settings(cfg, &sh).map_err(ErrKind::Handler)?;
            lol_html::rewrite_str(input, settings).map_err(|e| ErrKind::from(&e))
        }
    });
    let events = std::mem::take(&mut sh_outer.borrow_mut().events);
    match res {
        Ok(Ok(s)) => (Ok(()), s.into_bytes(), events),
        Ok(Err(e)) => (Err(e), vec![], events),
        Err(p) => (Err(ErrKind::Panic(p)), vec![], events),
    }
}

/// Split `input` at sorted cut positions (duplicates give empty writes).
pub fn split<'a>(input: &'a [u8], cuts: &[usize]) -> Vec<&'a [u8]> {
    let mut v = Vec::with_capacity(cuts.len() + 1);
    let mut prev = 0;
    for &c in cuts {
        let c = c.min(input.len()).max(prev);
        v.push(&input[prev..c]);
        prev = c;
    }
    v.push(&input[prev..]);
    v
}

/// Merge text chunk events of one handler into whole text nodes, checking the chunk protocol:
/// exactly one `last` per node and contiguous chunk ranges. Empty final chunks are dropped.
pub fn norm(events: &[Ev]) -> Result<Vec<Ev>, String> {
    let mut out: Vec<Ev> = vec![];
    // pending text per handler id
    let mut pend: std::collections::BTreeMap<String, (String, String, Loc)> = Default::default();
    for e in events {
        match e {
            Ev::Text { h, text, ttype, last, loc } => {
                if let Some((acc, tt, l)) = pend.get_mut(h) {
                    if tt != ttype {
                        return Err(format!("text type changed inside one text node for {h}: {tt} -> {ttype}"));
                    }
                    if l.1 != loc.0 {
                        return Err(format!("text chunk ranges not contiguous for {h}: {:?} then {:?}", l, loc));
                    }
                    acc.push_str(text);
                    l.1 = loc.1;
                } else {
                    pend.insert(h.clone(), (text.clone(), ttype.clone(), *loc));
                }
                if *last {
                    let (acc, tt, l) = pend.remove(h).unwrap();
                    out.push(Ev::Text { h: h.clone(), text: acc, ttype: tt, last: true, loc: l });
                }
            }
            other => {
                if let Some((_, _, l)) = pend.get(other.handler()) {
                    // a non-text event for the same handler while its text node is open
                    if !matches!(other, Ev::BailOut { .. }) {
                        return Err(format!("handler {} got {:?} while its text node at {:?} had no last_in_text_node chunk", other.handler(), other, l));
                    }
                }
                out.push(other.clone());
            }
        }
    }
    if let Some((h, (_, _, l))) = pend.iter().next() {
        return Err(format!("text node for {h} starting at {} never got a last_in_text_node chunk", l.0));
    }
    Ok(out)
}

pub fn show(b: &[u8]) -> String {
    String::from_utf8_lossy(b).chars().flat_map(|c| c.escape_debug()).collect()
}

pub fn first_diff(a: &[u8], b: &[u8]) -> usize {
    a.iter().zip(b.iter()).position(|(x, y)| x != y).unwrap_or(a.len().min(b.len()))
}
