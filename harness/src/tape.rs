//! Choice tape: every random decision of every generator is read from a `&[u16]` that
//! proptest (or libFuzzer) produced. Decoding is deterministic, values map monotonically to
//! choices (`v * n >> 16`), an exhausted tape yields 0 (= the simplest choice), so proptest's
//! vec/integer shrinking shrinks the decoded structure and a saved tape replays exactly.

pub struct Tape<'a> {
    data: &'a [u16],
    pos: usize,
}

impl<'a> Tape<'a> {
    pub fn new(data: &'a [u16]) -> Self {
        Tape { data, pos: 0 }
    }

    #[inline]
    pub fn raw(&mut self) -> u16 {
        let v = self.data.get(self.pos).copied().unwrap_or(0);
        self.pos += 1;
        v
    }

    pub fn exhausted(&self) -> bool {
        self.pos >= self.data.len()
    }

    pub fn consumed(&self) -> usize {
        self.pos
    }

    /// uniform in 0..n (n >= 1), monotone in the tape value
    #[inline]
    pub fn below(&mut self, n: usize) -> usize {
        debug_assert!(n >= 1);
        if n <= 1 {
            // still consume, so that structure does not shift when `n` changes
            self.raw();
            return 0;
        }
        if n <= 65536 {
            ((self.raw() as u64 * n as u64) >> 16) as usize
        } else {
            let hi = self.raw() as u64;
            let lo = self.raw() as u64;
            ((((hi << 16) | lo) * n as u64) >> 32) as usize
        }
    }

    /// inclusive range
    #[inline]
    pub fn range(&mut self, lo: usize, hi: usize) -> usize {
        lo + self.below(hi - lo + 1)
    }

    /// true with probability num/den; 0 on the tape is always `false`
    #[inline]
    pub fn chance(&mut self, num: usize, den: usize) -> bool {
        self.below(den) >= den - num
    }

    #[inline]
    pub fn pick<'t, T>(&mut self, items: &'t [T]) -> &'t T {
        &items[self.below(items.len())]
    }

    /// weighted choice; returns index
    pub fn weighted(&mut self, weights: &[usize]) -> usize {
        let total: usize = weights.iter().sum();
        let mut x = self.below(total.max(1));
        for (i, w) in weights.iter().enumerate() {
            if x < *w {
                return i;
            }
            x -= *w;
        }
        weights.len() - 1
    }

    /// A 16-bit fraction used for positions (cut points): mapped by the caller with
    /// `frac_to_pos` so that shrinking the document keeps them valid.
    #[inline]
    pub fn frac(&mut self) -> u16 {
        self.raw()
    }
}

#[inline]
pub fn frac_to_pos(frac: u16, len: usize) -> usize {
    ((frac as u64 * (len as u64 + 1)) >> 16) as usize
}

pub fn fnv(bytes: &[u8]) -> u64 {
    let mut h: u64 = 0xcbf29ce484222325;
    for b in bytes {
        h ^= *b as u64;
        h = h.wrapping_mul(0x100000001b3);
    }
    h
}
