use lolv::engine::{Ctx, Tier, drive};
use std::path::PathBuf;

/// Counts live heap bytes while `COUNTING` is set (only the single-threaded `--heap` probe of
/// C10 turns it on; otherwise a relaxed load per allocation).
struct CountingAlloc;
static COUNTING: std::sync::atomic::AtomicBool = std::sync::atomic::AtomicBool::new(false);
static LIVE: std::sync::atomic::AtomicIsize = std::sync::atomic::AtomicIsize::new(0);

unsafe impl std::alloc::GlobalAlloc for CountingAlloc {
    unsafe fn alloc(&self, l: std::alloc::Layout) -> *mut u8 {
        if COUNTING.load(std::sync::atomic::Ordering::Relaxed) {
            LIVE.fetch_add(l.size() as isize, std::sync::atomic::Ordering::Relaxed);
        }
        unsafe { std::alloc::System.alloc(l) }
    }
    unsafe fn dealloc(&self, p: *mut u8, l: std::alloc::Layout) {
        if COUNTING.load(std::sync::atomic::Ordering::Relaxed) {
            LIVE.fetch_sub(l.size() as isize, std::sync::atomic::Ordering::Relaxed);
        }
        unsafe { std::alloc::System.dealloc(p, l) }
    }
    unsafe fn realloc(&self, p: *mut u8, l: std::alloc::Layout, new_size: usize) -> *mut u8 {
        if COUNTING.load(std::sync::atomic::Ordering::Relaxed) {
            LIVE.fetch_add(new_size as isize - l.size() as isize, std::sync::atomic::Ordering::Relaxed);
        }
        unsafe { std::alloc::System.realloc(p, l, new_size) }
    }
}

#[global_allocator]
static ALLOC: CountingAlloc = CountingAlloc;

fn main() {
    let args: Vec<String> = std::env::args().skip(1).collect();
    if args.is_empty() {
        eprintln!("usage: lolv <Cxx> [--tier quick|thorough] [--seed N] [--replay file] [--cases N] [--threads N]");
        std::process::exit(2);
    }
    let id = args[0].clone();
    let mut tier = match std::env::var("VERIF_TIER").as_deref() {
        Ok("thorough") => Tier::Thorough,
        _ => Tier::Quick,
    };
    let mut seed: u64 = std::env::var("VERIF_SEED").ok().and_then(|s| s.parse().ok()).unwrap_or(1);
    let mut replay: Option<PathBuf> = None;
    let mut cases: Option<u64> = None;
    let mut threads = std::thread::available_parallelism().map(|n| n.get()).unwrap_or(8).min(16);
    let mut i = 1;
    while i < args.len() {
        match args[i].as_str() {
            "--tier" => {
                i += 1;
                tier = if args[i] == "thorough" { Tier::Thorough } else { Tier::Quick };
            }
            "--seed" => {
                i += 1;
                seed = args[i].parse().expect("seed");
            }
            "--replay" => {
                i += 1;
                replay = Some(PathBuf::from(&args[i]));
            }
            "--cases" => {
                i += 1;
                cases = Some(args[i].parse().expect("cases"));
            }
            "--dump-fixed" => {
                let root = PathBuf::from(std::env::var("VERIF_ROOT").unwrap_or_else(|_| "/verif".into()));
                for p in lolv::props::all() {
                    if id == "all" || p.id() == id {
                        lolv::engine::dump_fixed_cases(p.as_ref(), &root);
                    }
                }
                return;
            }
            "--big" => {
                lolv::engine::install_quiet_panic_hook();
                let n: usize = args[i + 2].parse().expect("n");
                match lolv::props::c15::run_big(&args[i + 1], n) {
                    Ok(m) => {
                        println!("OK {m}");
                        return;
                    }
                    Err(e) => {
                        println!("FAILED {e}");
                        std::process::exit(1);
                    }
                }
            }
            "--heap" => {
                // C10: heap growth of a live rewriter under a memory limit (child process, one thread)
                let n: usize = args[i + 2].parse().expect("n");
                COUNTING.store(true, std::sync::atomic::Ordering::SeqCst);
                let r = lolv::props::c10::heap_probe(&args[i + 1], n, &|| LIVE.load(std::sync::atomic::Ordering::SeqCst));
                COUNTING.store(false, std::sync::atomic::Ordering::SeqCst);
                match r {
                    Ok(m) => {
                        println!("OK {m}");
                        return;
                    }
                    Err(e) => {
                        println!("FAILED {e}");
                        std::process::exit(1);
                    }
                }
            }
            "--perf" => {
                let n: usize = args[i + 2].parse().expect("n");
                match lolv::props::c15perf::run_perf(&args[i + 1], n) {
                    Ok(()) => return,
                    Err(e) => {
                        println!("FAILED {e}");
                        std::process::exit(1);
                    }
                }
            }
            "--threads" => {
                i += 1;
                threads = args[i].parse().expect("threads");
            }
            other => {
                eprintln!("unknown argument {other}");
                std::process::exit(2);
            }
        }
        i += 1;
    }
    let root = PathBuf::from(std::env::var("VERIF_ROOT").unwrap_or_else(|_| "/verif".into()));
    let ctx = Ctx { tier, seed, root, threads };
    let props = lolv::props::all();
    let Some(p) = props.iter().find(|p| p.id() == id) else {
        eprintln!("unknown property {id}");
        std::process::exit(2);
    };
    let code = drive(p.as_ref(), &ctx, replay.as_deref(), cases);
    std::process::exit(code);
}
