//! G-sel: selector sets over the full supported grammar, built from a small shared pool of
//! compounds so that different selectors share prefixes on purpose.
use crate::model::css::{Complex, SelList, Simple};
use crate::tape::Tape;

const TYPES: &[&str] = &["div", "span", "p", "a", "li", "b", "DIV", "g", "img", "br", "averyveryverylongtagname", "custom-element", "svg", "foreignObject", "foreignobject", "mi", "ul", "section", "title", "style", "x1", "custom-elements", "averyveryverylongtagnam", "di", "divv"];
// attribute names: none from the `selectors` crate's legacy case-insensitive-value list
const ATTRS: &[&str] = &["id", "class", "href", "title", "data-x", "x", "y", "abc", "ABC", "Class", "role", "name"];
const VALS: &[&str] = &["", "a", "b", "a b", "ab", "AB", "A", "a-b", "x", "-", "abc", "é", "1", "x y z", " ", "b a"];
const IDENTS: &[&str] = &["a", "b", "ab", "AB", "abc", "x", "a-b"];

fn val(t: &mut Tape<'_>) -> String {
    if t.chance(1, 3) {
        let n = t.range(0, 4);
        (0..n).map(|_| *t.pick(&['a', 'b', 'a', 'b', 'A', ' ', '-'])).collect()
    } else {
        t.pick(VALS).to_string()
    }
}

fn ident(t: &mut Tape<'_>) -> String {
    if t.chance(1, 4) {
        let n = t.range(1, 3);
        (0..n).map(|_| *t.pick(&['a', 'b', 'A'])).collect()
    } else {
        t.pick(IDENTS).to_string()
    }
}

pub fn simple(t: &mut Tape<'_>, depth: usize, allow_not: bool, allow_flattened: bool) -> Simple {
    match t.below(if allow_not && depth < 3 { 10 } else { 8 }) {
        0 | 1 => Simple::Type(t.pick(TYPES).to_string()),
        2 => Simple::Any,
        3 => Simple::Id(ident(t)),
        4 => Simple::Class(ident(t)),
        5 => Simple::AttrExists(t.pick(ATTRS).to_string()),
        6 => Simple::Attr { name: t.pick(ATTRS).to_string(), op: *t.pick(&["=", "~=", "|=", "^=", "$=", "*="]), val: val(t), flag: *t.pick(&[None, None, Some('i'), Some('s')]) },
        7 => Simple::Nth { of_type: t.chance(2, 5), a: *t.pick(&[0, 1, 2, 3, -1, -2, 2, 0]), b: *t.pick(&[0, 1, 2, 3, -1, 5, 1, -3]), style: t.below(2) as u8 },
        _ => {
            // :not(simple | compound | list), nested
            let d = depth + 1;
            let n_args = if !allow_flattened && d % 2 == 0 { 1 } else { t.range(1, 3) };
            let args = (0..n_args)
                .map(|_| {
                    let m = if !allow_flattened && d % 2 == 1 { 1 } else { t.range(1, 3) };
                    let mut v: Vec<Simple> = vec![];
                    for i in 0..m {
                        let s = simple(t, d, true, allow_flattened);
                        if matches!(s, Simple::Type(_) | Simple::Any) && (i != 0) {
                            continue;
                        }
                        v.push(s);
                    }
                    if v.is_empty() {
                        v.push(Simple::Any);
                    }
                    v
                })
                .collect();
            Simple::Not(args)
        }
    }
}

pub fn compound(t: &mut Tape<'_>, allow_flattened: bool) -> Vec<Simple> {
    let n = t.range(1, 3);
    let mut v: Vec<Simple> = vec![];
    for i in 0..n {
        let s = simple(t, 0, true, allow_flattened);
        // a type/universal selector must come first
        if matches!(s, Simple::Type(_) | Simple::Any) && i != 0 {
            continue;
        }
        v.push(s);
    }
    if v.is_empty() {
        v.push(Simple::Any);
    }
    v
}

/// 1..=max selectors (each possibly a list), drawn from a shared pool of compounds.
pub fn selector_set(t: &mut Tape<'_>, max: usize, allow_flattened: bool) -> Vec<SelList> {
    let pool_n = t.range(2, 5);
    let pool: Vec<Vec<Simple>> = (0..pool_n).map(|_| compound(t, allow_flattened)).collect();
    let n = t.range(1, max);
    (0..n)
        .map(|_| {
            let items = if t.chance(1, 5) { 2 } else { 1 };
            (0..items)
                .map(|_| {
                    let m = t.weighted(&[3, 4, 2, 1]) + 1;
                    Complex { parts: (0..m).map(|_| (t.pick(&pool).clone(), if t.chance(1, 2) { ' ' } else { '>' })).collect() }
                })
                .collect()
        })
        .collect()
}
