//! G-soup: concatenation of fragments from an adversarial fragment alphabet, and G-bytes.

use crate::tape::Tape;

/// Fragments that never contain `svg`/`math` (C03 domain G1).
pub const HTML_FRAGS: &[&str] = &[
    // plain text
    "a", "hello ", " ", "\n", "x y", "1 < 2", "a & b", "&", "=", "\"", "'", "/", "-", "--", "]", "]]", "]]>", "!", "?",
    "é", "日本", "😀", "\u{00a0}",
    // tag openers and truncated constructs
    "<", "</", "<!", "<!-", "<!--", "<!---", "<!---->", "<!-->", "<!--->", "-->", "--!>", "--!", "<!--x", "<!-- a -- b -->",
    "<?", "<?xml a?>", "<![CDATA[", "<![CDATA[x]]>", "<![CDA", "<!x>", "</>", "</ >", "</ x>", "<a", "<a ", "</a", "</a ", ">", "/>",
    // doctype
    "<!DOCTYPE", "<!DOCTYPE html>", "<!doctype html PUBLIC \"a\" \"b\">", "<!DOCTYPE x SYSTEM 'y'>", "<!DOCTYPE html PUBLIC", "<!DOCTYPE a PUBLI", "<!DOCTY", " PUBLIC \"a\" \"b\"", " SYSTEM 'x'", "<!DOCTYPE>", "<!DOCTYPE  html  SYSTEM \"q",
    // ordinary tags
    "<div>", "</div>", "<p>", "</p>", "<span>", "</span>", "<b>", "</b>", "<i>", "<a href=x>", "</a>", "<DIV>", "</DIV>", "<Div id=1>",
    "<br>", "<br/>", "<img src=a>", "<input>", "<hr>", "<wbr>", "\u{feff}", "\u{feff}\u{e9}", "a\u{feff}b", "<script><!--<script>", "</script/", "</script/>", "<script><!--<script></script/>x</script>", "</script/b>", "<meta charset=utf-8>", "<link rel=x>",
    // charset declarations in both syntaxes, incl. labels of encodings lol-html must refuse
    "<meta charset=windows-1252>", "<meta charset=utf-16le>", "<meta charset=\"Shift_JIS\">", "<meta http-equiv=Content-Type content=\"text/html; charset=utf-16\">", "<meta http-equiv=\"content-type\" content='text/html;charset=iso-2022-jp'>",
    "<meta http-equiv=content-type content=\"text/html; charset=windows-1251\">", "<meta content=\"text/html; charset=utf-16be\" http-equiv=Content-Type>", "<meta http-equiv=refresh content=\"charset=utf-16\">", "<meta charset=replacement>", "<meta http-equiv=Content-Type content=\"charset=x-user-defined\">",
    "<custom-element>", "</custom-element>", "<averyveryverylongtagname>", "</averyveryverylongtagname>", "<x1>", "<h1>", "</h1>",
    "<ul>", "<li>", "</li>", "</ul>", "<body>", "<html>", "<head>", "</head>", "</body>", "</html>",
    // attribute syntax corner cases
    "<a b=c d e='f' g=\"h\" B=2>", "<a/b/c>", "<a =b>", "<a b= >", "<a b=>", "<a b = c>", "<a b='>'>", "<a b=\">\" c>", "<a b=c/>", "<a b=c />", "<a b='c'd>", "<a \"=x>", "<a b=\"x", "<a b='", "<a b=c", "<a b", "<a b =", "<div a=1 a=2>", "<p class='x y'  id=\"z\">", "<a / >", "<a//>", "<a b=/>", "<a =>", "<a ==>", "<a\tb\nc>", "<a\u{c}b=1>",
    // text-mode elements
    "<script>", "</script>", "<SCRIPT>", "</SCRIPT>", "<script type=x>", "<script a= >", "<script/>", "</script ", "</script/", "</scr", "</scrip", "</scripts>", "</script-",
    "<style>", "</style>", "<STYLE>", "</sty", "</style ", "<style media=a>",
    "<title>", "</title>", "</titl", "</title1>", "<Title>", "</TITLE>",
    "<textarea>", "</textarea>", "</textare", "<textarea rows=1>",
    "<xmp>", "</xmp>", "<iframe>", "</iframe>", "<noembed>", "</noembed>", "<noframes>", "</noframes>", "<noscript>", "</noscript>", "<plaintext>", "</plaintext>",
    // script escape constructs
    "<!--<script>", "<!--<script", "<!--</script>", "<!-- -->", "<script><!--", "--></script>", "<!--<scrip", "<script>x</script>-->", "<!--<SCRIPT >", "<!--<script/",
    // select / template / frameset / table
    "<select>", "</select>", "<option>", "</option>", "<optgroup>", "<template>", "</template>", "<frameset>", "</frameset>", "<frame>", "<table>", "</table>", "<tr>", "<td>", "</td>", "<tbody>", "<caption>", "<keygen>", "<textarea></textarea>", "<select><option>",
    // esi-ish
    "<esi:include src=a/>", "<esi:remove>", "</esi:remove>", "<esi:include>", "<esi:comment text=x>", "<esi:include src=x />", "</esi:include>",
];

pub const FOREIGN_FRAGS: &[&str] = &[
    "<svg>", "</svg>", "<math>", "</math>", "<svg/>", "<SVG>", "<svg viewBox='0 0 1 1'>", "<g>", "</g>", "<path d=x/>", "<circle/>", "<foreignObject>", "</foreignObject>", "<foreignobject>", "<desc>", "</desc>",
    "<mi>", "</mi>", "<mo>", "</mo>", "<mn>", "<ms>", "<mtext>", "</mtext>", "<annotation-xml encoding=text/html>", "<annotation-xml encoding='application/xhtml+xml'>", "<annotation-xml>", "</annotation-xml>", "<mglyph>", "<malignmark>",
    "<font>", "<font color=a>", "<font size=1>", "</font>", "<![CDATA[ <b> ]]>", "<![CDATA[", "]]>", "]]]>", "<![CDATA[a[0]]]>", "]]]]>", "]", "<title>", "</title>", "<style>", "</style>", "<script>", "</script>",
];

pub struct SoupOpts {
    pub max_frags: usize,
    pub foreign: bool,
    pub raw_bytes: bool,
}

impl Default for SoupOpts {
    fn default() -> Self {
        SoupOpts { max_frags: 24, foreign: true, raw_bytes: false }
    }
}

/// Returns (bytes, fragment strings used) — valid UTF-8 unless `raw_bytes`.
pub fn soup(t: &mut Tape<'_>, o: &SoupOpts) -> Vec<u8> {
    let n = t.range(0, o.max_frags);
    let mut out = Vec::new();
    for _ in 0..n {
        let k = if o.raw_bytes { t.weighted(&[10, if o.foreign { 3 } else { 0 }, 2, 2]) } else { t.weighted(&[10, if o.foreign { 3 } else { 0 }, 2, 0]) };
        match k {
            0 => out.extend_from_slice(t.pick(HTML_FRAGS).as_bytes()),
            1 => out.extend_from_slice(t.pick(FOREIGN_FRAGS).as_bytes()),
            2 => {
                // short run of ascii from a markup-biased alphabet
                let m = t.range(1, 6);
                for _ in 0..m {
                    out.push(*t.pick(b"<>/!-=\"' ][&?abcsTx1\n\t"));
                }
            }
            _ => {
                let m = t.range(1, 4);
                for _ in 0..m {
                    out.push(t.below(256) as u8);
                }
            }
        }
    }
    out
}

/// G-bytes: arbitrary bytes biased to markup characters and high bytes.
pub fn bytes(t: &mut Tape<'_>, max: usize) -> Vec<u8> {
    let n = t.range(0, max);
    (0..n)
        .map(|_| match t.below(4) {
            0 => *t.pick(b"<>/!-=\"' ][&\0"),
            1 => 0x80 + t.below(128) as u8,
            2 => b'a' + t.below(26) as u8,
            _ => t.below(256) as u8,
        })
        .collect()
}

/// Names of text-mode-switching elements in the HTML namespace.
pub const TEXT_MODE_TAGS: &[&str] = &["script", "style", "title", "textarea", "xmp", "iframe", "noembed", "noframes", "noscript", "plaintext"];

/// Cheap syntactic classification used for "non-trivial" rules.
pub fn has_markup(b: &[u8]) -> bool {
    b.windows(2).any(|w| w[0] == b'<' && (w[1].is_ascii_alphabetic() || w[1] == b'/' || w[1] == b'!' || w[1] == b'?'))
}

pub fn contains_ci(hay: &[u8], needle: &str) -> bool {
    let n = needle.as_bytes();
    hay.len() >= n.len() && hay.windows(n.len()).any(|w| w.eq_ignore_ascii_case(n))
}

pub fn has_text_mode_or_foreign(b: &[u8]) -> bool {
    TEXT_MODE_TAGS.iter().any(|t| contains_ci(b, &format!("<{t}"))) || contains_ci(b, "<svg") || contains_ci(b, "<math") || contains_ci(b, "<![CDATA[")
}
