//! G-sched: write schedules.
use crate::tape::{Tape, frac_to_pos};

/// Random k-cut schedule: sorted cut positions; duplicates (=> empty writes) allowed.
pub fn random_cuts(t: &mut Tape<'_>, len: usize, max_cuts: usize) -> Vec<usize> {
    let k = t.range(0, max_cuts);
    let mut v: Vec<usize> = (0..k).map(|_| frac_to_pos(t.frac(), len)).collect();
    v.sort();
    v
}

/// A schedule family chosen from the tape.
pub fn schedule(t: &mut Tape<'_>, len: usize) -> Vec<usize> {
    match t.weighted(&[2, 5, 1, 2]) {
        0 => vec![],
        1 => random_cuts(t, len, 6),
        2 => (1..len).collect(), // byte-wise
        _ => {
            let b = *t.pick(&[1usize, 2, 3, 5, 7, 16, 64]);
            (1..len).filter(|i| i % b == 0).collect()
        }
    }
}

pub fn bytewise(len: usize) -> Vec<usize> {
    (1..len).collect()
}

/// A schedule drawn before the input is known (so that an exhausted tape degrades the input,
/// not the schedule); resolved against the input length afterwards.
#[derive(Clone, Debug)]
pub enum SchedSpec {
    Single,
    Fracs(Vec<u16>),
    Bytewise,
    Block(usize),
}

pub fn sched_spec(t: &mut Tape<'_>) -> SchedSpec {
    match t.weighted(&[2, 5, 1, 2]) {
        0 => SchedSpec::Single,
        1 => {
            let k = t.range(0, 6);
            SchedSpec::Fracs((0..k).map(|_| t.frac()).collect())
        }
        2 => SchedSpec::Bytewise,
        _ => SchedSpec::Block(*t.pick(&[1usize, 2, 3, 5, 7, 16, 64])),
    }
}

impl SchedSpec {
    pub fn resolve(&self, len: usize) -> Vec<usize> {
        match self {
            SchedSpec::Single => vec![],
            SchedSpec::Fracs(f) => {
                let mut v: Vec<usize> = f.iter().map(|x| frac_to_pos(*x, len)).collect();
                v.sort();
                v
            }
            SchedSpec::Bytewise => (1..len).collect(),
            SchedSpec::Block(b) => (1..len).filter(|i| i % b == 0).collect(),
        }
    }
}
