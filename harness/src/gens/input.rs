//! Inputs for layout-independent properties (C01, C02, C06, C09, C11, C12, C15): soup / bytes,
//! re-encoded in a chosen encoding, optionally with malformed bytes.
use crate::gens::enc::{ENCODINGS, pool};
use crate::gens::soup::{SoupOpts, bytes as gbytes, soup};
use crate::tape::Tape;
use encoding_rs::Encoding;

pub struct InputOpts {
    pub max_frags: usize,
    pub foreign: bool,
    pub allow_raw: bool,
    pub all_encodings: bool,
    /// only characters whose encoded bytes are all >= 0x80 (byte-level tokenization can then
    /// never split a character, so every text node round-trips)
    pub safe_only: bool,
}

impl Default for InputOpts {
    fn default() -> Self {
        InputOpts { max_frags: 20, foreign: true, allow_raw: true, all_encodings: true, safe_only: false }
    }
}

pub fn pick_encoding(t: &mut Tape<'_>, all: bool) -> &'static Encoding {
    if !all {
        return encoding_rs::UTF_8;
    }
    // UTF-8 half of the time (index 0), others uniformly
    if t.chance(1, 2) { ENCODINGS[t.below(ENCODINGS.len())] } else { encoding_rs::UTF_8 }
}

/// Transcode a UTF-8 soup into `enc`: ASCII kept, every non-ASCII char replaced by a char of
/// the encoding's pool (chosen from the tape) and encoded.
pub fn transcode(t: &mut Tape<'_>, s: &str, enc: &'static Encoding, safe_only: bool) -> Vec<u8> {
    if enc == encoding_rs::UTF_8 {
        return s.as_bytes().to_vec();
    }
    let p = pool(crate::gens::enc::index_of(enc));
    let mut out = Vec::with_capacity(s.len());
    for c in s.chars() {
        if c.is_ascii() {
            out.push(c as u8);
        } else {
            let n = p.safe.len() + if safe_only { 0 } else { p.ascii_trail.len() };
            if n == 0 {
                out.push(b'?');
                continue;
            }
            let i = t.below(n);
            let ch = if i < p.safe.len() { p.safe[i] } else { p.ascii_trail[i - p.safe.len()] };
            let chs = ch.to_string();
            let (b, _, _) = enc.encode(&chs);
            out.extend_from_slice(&b);
        }
    }
    out
}

pub fn input(t: &mut Tape<'_>, o: &InputOpts) -> (Vec<u8>, &'static Encoding) {
    let enc = pick_encoding(t, o.all_encodings);
    (input_in(t, o, enc), enc)
}

pub fn input_in(t: &mut Tape<'_>, o: &InputOpts, enc: &'static Encoding) -> Vec<u8> {
    let raw = o.allow_raw && !o.safe_only;
    let kind = t.weighted(&[8, if raw { 2 } else { 0 }, if raw { 1 } else { 0 }]);
    let bytes = match kind {
        0 => {
            let b = soup(t, &SoupOpts { max_frags: o.max_frags, foreign: o.foreign, raw_bytes: false });
            let s = String::from_utf8(b).expect("soup fragments are UTF-8");
            transcode(t, &s, enc, o.safe_only)
        }
        1 => soup(t, &SoupOpts { max_frags: o.max_frags, foreign: o.foreign, raw_bytes: true }),
        _ => gbytes(t, 64),
    };
    bytes
}

/// Is position `p` (0<p<len) strictly inside an angle-bracket construct or a multi-byte char?
pub fn cut_is_interesting(b: &[u8], p: usize) -> bool {
    if p == 0 || p >= b.len() {
        return false;
    }
    if b[p] & 0xC0 == 0x80 {
        return true;
    }
    // last '<' before p not followed by '>' before p
    match b[..p].iter().rposition(|c| *c == b'<') {
        Some(i) => !b[i..p].contains(&b'>'),
        None => false,
    }
}

/// With probability 1/`one_in`, splice a long construct (600-3000 bytes: text run, attribute
/// value, comment body, tag or attribute name) into the input at an ASCII boundary, so that
/// buffer growth, the 1 KiB decoder buffer and re-buffering across writes are exercised.
pub fn maybe_long(t: &mut Tape<'_>, input: Vec<u8>, one_in: usize) -> Vec<u8> {
    if !t.chance(1, one_in) {
        return input;
    }
    let n = *t.pick(&[600usize, 1000, 1024, 1100, 2100, 3000]);
    let body = vec![*t.pick(b"xyz09"); n];
    let mut piece: Vec<u8> = Vec::with_capacity(n + 32);
    match t.below(6) {
        0 => piece.extend_from_slice(&body),
        1 => {
            piece.extend_from_slice(b"<a title=\"");
            piece.extend_from_slice(&body);
            piece.extend_from_slice(b"\" id=q>");
        }
        2 => {
            piece.extend_from_slice(b"<!--");
            piece.extend_from_slice(&body);
            piece.extend_from_slice(b"-->");
        }
        3 => {
            piece.extend_from_slice(b"<t");
            piece.extend_from_slice(&body);
            piece.extend_from_slice(b" a=b>");
        }
        4 => {
            piece.extend_from_slice(b"<a ");
            piece.extend_from_slice(&body);
            piece.extend_from_slice(b"=1>");
        }
        _ => {
            piece.extend_from_slice(b"<style>");
            piece.extend_from_slice(&body);
            piece.extend_from_slice(b"</style>");
        }
    }
    let mut at = frac_to_pos_local(t.frac(), input.len());
    while at > 0 && (input[at - 1] >= 0x80 || input.get(at).is_some_and(|b| *b >= 0x80)) {
        at -= 1;
    }
    let mut v = input[..at].to_vec();
    v.extend_from_slice(&piece);
    v.extend_from_slice(&input[at..]);
    v
}

fn frac_to_pos_local(frac: u16, len: usize) -> usize {
    ((frac as u64 * (len as u64 + 1)) >> 16) as usize
}
