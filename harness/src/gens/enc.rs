//! G-enc: the 36 ASCII-compatible encodings and per-encoding pools of mappable characters.
use encoding_rs::*;
use std::sync::OnceLock;

pub static ENCODINGS: [&Encoding; 36] = [
    UTF_8, WINDOWS_1252, SHIFT_JIS, BIG5, EUC_JP, EUC_KR, GB18030, GBK, IBM866, ISO_8859_2, ISO_8859_3, ISO_8859_4, ISO_8859_5, ISO_8859_6, ISO_8859_7, ISO_8859_8,
    ISO_8859_8_I, ISO_8859_10, ISO_8859_13, ISO_8859_14, ISO_8859_15, ISO_8859_16, KOI8_R, KOI8_U, MACINTOSH, WINDOWS_874, WINDOWS_1250, WINDOWS_1251, WINDOWS_1253,
    WINDOWS_1254, WINDOWS_1255, WINDOWS_1256, WINDOWS_1257, WINDOWS_1258, X_MAC_CYRILLIC, X_USER_DEFINED,
];

pub static NON_ASCII_COMPATIBLE: [&Encoding; 4] = [UTF_16BE, UTF_16LE, ISO_2022_JP, REPLACEMENT];

const CANDIDATES: &[(u32, u32)] = &[
    (0x80, 0x24f), (0x370, 0x3ff), (0x400, 0x45f), (0x5d0, 0x5ea), (0x621, 0x64a), (0xe01, 0xe3a), (0x2010, 0x2030), (0x20ac, 0x20ac), (0x2190, 0x2199), (0x2500, 0x2520),
    (0x3041, 0x3093), (0x30a1, 0x30f6), (0x4e00, 0x4e80), (0x5b57, 0x5b60), (0xac00, 0xac40), (0xf780, 0xf7ff), (0xff61, 0xff9f), (0x1f600, 0x1f610), (0x20000, 0x20010),
];

fn markup_ascii(b: u8) -> bool {
    b < 0x80
}

pub struct Pool {
    /// non-ASCII chars that round-trip in the encoding and whose bytes are all >= 0x80
    pub safe: Vec<char>,
    /// non-ASCII chars that round-trip but contain an ASCII trail byte
    pub ascii_trail: Vec<char>,
    /// chars that cannot be encoded
    pub unmappable: Vec<char>,
}

pub fn pool(idx: usize) -> &'static Pool {
    static POOLS: OnceLock<Vec<Pool>> = OnceLock::new();
    &POOLS.get_or_init(|| {
        ENCODINGS
            .iter()
            .map(|enc| {
                let mut p = Pool { safe: vec![], ascii_trail: vec![], unmappable: vec![] };
                for (lo, hi) in CANDIDATES {
                    for cp in *lo..=*hi {
                        let Some(c) = char::from_u32(cp) else { continue };
                        let s = c.to_string();
                        let (bytes, _, unmappable) = enc.encode(&s);
                        if unmappable {
                            if p.unmappable.len() < 64 {
                                p.unmappable.push(c);
                            }
                            continue;
                        }
                        let (back, had_err) = enc.decode_without_bom_handling(&bytes);
                        if had_err || back != s {
                            continue;
                        }
                        // canonical: re-encoding the decoded form gives the same bytes
                        if bytes.iter().any(|b| markup_ascii(*b)) {
                            p.ascii_trail.push(c);
                        } else {
                            p.safe.push(c);
                        }
                    }
                }
                p
            })
            .collect()
    })[idx]
}

pub fn index_of(enc: &'static Encoding) -> usize {
    ENCODINGS.iter().position(|e| *e == enc).unwrap()
}
