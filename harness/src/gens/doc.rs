//! G-doc: structured document generator that owns the layout: every token's byte range, kind,
//! namespace and text type is recorded while rendering, without consulting the implementation.
//! Attribute lists are *not* recorded here: they are derived from the tag's bytes by R-attr.

use crate::engine::finding_open;
use crate::tape::Tape;

#[derive(Clone, Copy, Debug, PartialEq, Eq)]
pub enum Ns {
    Html,
    Svg,
    MathMl,
}

impl Ns {
    pub fn uri(self) -> &'static str {
        match self {
            Ns::Html => "http://www.w3.org/1999/xhtml",
            Ns::Svg => "http://www.w3.org/2000/svg",
            Ns::MathMl => "http://www.w3.org/1998/Math/MathML",
        }
    }
}

#[derive(Clone, Copy, Debug, PartialEq, Eq)]
pub enum TK {
    Start,
    End,
    Text,
    Comment,
    Doctype,
    /// `<![CDATA[` / `]]>` markers (no token is shown to handlers for them)
    CdataMarker,
}

#[derive(Clone, Debug)]
pub struct Tok {
    pub kind: TK,
    pub start: usize,
    pub end: usize,
    /// tags: name as written; comments: comment text; text: the text
    pub name: String,
    pub ns: Ns,
    /// text tokens: "Data" | "RCData" | "RawText" | "ScriptData" | "PlainText" | "CDataSection"
    pub text_type: &'static str,
    /// start tags: end of the name part (offset of the byte that terminates the name)
    pub name_end: usize,
    /// token lies inside (or delimits) an SVG/MathML island
    pub island: bool,
}

#[derive(Clone, Debug)]
pub struct Doc {
    pub enc: &'static encoding_rs::Encoding,
    pub bytes: Vec<u8>,
    pub toks: Vec<Tok>,
    pub has_island: bool,
    pub has_rawtext: bool,
    pub has_misnest: bool,
}

impl Default for Doc {
    fn default() -> Self {
        Doc { enc: encoding_rs::UTF_8, bytes: vec![], toks: vec![], has_island: false, has_rawtext: false, has_misnest: false }
    }
}

impl Doc {
    pub fn decode(&self, r: (usize, usize)) -> String {
        self.enc.decode_without_bom_handling(&self.bytes[r.0..r.1]).0.into_owned()
    }
}

#[derive(Clone, Debug)]
pub struct DocOpts {
    pub max_items: usize,
    pub max_depth: usize,
    pub islands: bool,
    pub rawtext: bool,
    /// allow omitted / stray / crossing end tags among HTML elements
    pub misnest: bool,
    pub comments: bool,
    pub doctype: bool,
    pub multibyte: bool,
    /// attribute syntax corner cases (odd names, missing values, '/' separators, no whitespace
    /// after quoted values); otherwise plain `name="value"` forms
    pub odd_attrs: bool,
    pub max_attrs: usize,
    /// vocabulary for attribute values / names: small so that selectors hit
    pub small_vocab: bool,
    /// allow '<' (followed by a non-tag character) in data text
    pub lt_in_text: bool,
    /// document encoding: non-ASCII characters of the vocabulary are mapped to characters of
    /// this encoding whose encoded bytes are all >= 0x80
    pub enc: &'static encoding_rs::Encoding,
    /// replace every '&' of the vocabulary by '+' (no character references: html5ever decodes them)
    pub amp_safe: bool,
    /// do not generate `<annotation-xml encoding=text/html>` integration points (html5ever 0.39
    /// omits annotation-xml from its scope-boundary set, so it is not a usable reference there)
    pub no_annotation_xml: bool,
    /// never emit ESI tag names (for oracles that know nothing about ESI: html5ever)
    pub no_esi: bool,
    /// one document in ten is wrapped in 7-40 nested elements (open-element stack growth steps)
    pub deep_wrappers: bool,
    /// foreign islands may end in a tag that leaves foreign content (`<b>`, `<p>`, `<font color>`,
    /// `<br>` ...): the rest of the island is HTML and its closing tags are stray (not well-nested)
    pub breakouts: bool,
    /// HTML-namespace comments are sometimes written as bogus comments (`<!x>`, `<?x>`, `</ x>`,
    /// and outside islands `<![CDATA[x>`)
    pub bogus_comments: bool,
    /// also write `<![CDATA[x>` in the HTML content of integration points (where the open finding
    /// C03-cdata-in-integration-point makes the layout's idea of the token unreliable): only for
    /// oracles that do not use the layout (C06)
    pub bogus_cdata_in_ip: bool,
}

impl Default for DocOpts {
    fn default() -> Self {
        DocOpts { max_items: 14, max_depth: 5, islands: true, rawtext: true, misnest: true, comments: true, doctype: true, multibyte: true, odd_attrs: true, max_attrs: 4, small_vocab: true, lt_in_text: false, enc: encoding_rs::UTF_8, amp_safe: false, no_annotation_xml: false, no_esi: false, deep_wrappers: true, breakouts: true, bogus_comments: true, bogus_cdata_in_ip: false }
    }
}

pub const HTML_NAMES: &[&str] = &["div", "span", "p", "b", "a", "li", "ul", "h1", "section", "i", "custom-element", "averyveryverylongtagname", "x1", "DIV", "Span", "em", "td", "custom-elements", "averyveryverylongtagnam", "di", "divv", "esi:include", "esi:comment", "esi:remove"];
pub const VOID_NAMES: &[&str] = &["br", "img", "input", "hr", "wbr", "meta", "link", "col", "embed", "area", "base", "source", "track", "param", "keygen", "basefont", "bgsound", "BR", "Img", "esi:include", "esi:comment"];
pub const RAW_NAMES: &[(&str, &str)] = &[
    ("script", "ScriptData"), ("style", "RawText"), ("title", "RCData"), ("textarea", "RCData"), ("xmp", "RawText"), ("iframe", "RawText"), ("noembed", "RawText"), ("noframes", "RawText"), ("noscript", "RawText"), ("STYLE", "RawText"), ("Title", "RCData"),
];
pub const SVG_NAMES: &[&str] = &["g", "path", "circle", "rect", "defs", "use", "text", "tspan", "linearGradient", "a"];
pub const MATH_NAMES: &[&str] = &["mrow", "mfrac", "msup", "msqrt", "mstyle", "semantics"];
pub const ATTR_NAMES: &[&str] = &["id", "class", "href", "title", "data-x", "x", "y", "ABC", "Class", "ID", "rel", "name"];
pub const ATTR_VALUES: &[&str] = &["a", "b", "a b", "ab", "AB", "", "a-b", "x y z", "abc", "b a", "-", "a-", "é", "1", "\u{feff}a", "\u{fe}\u{ff}b"];
/// A plain attribute value: from the pool, or (one in three) composed from a tiny alphabet so
/// that values contain repeated prefixes and near-misses of the selectors' operands
/// (`aab` vs `ab`, `a a` vs `a`, `a-a-b`).
pub fn attr_value(t: &mut Tape<'_>) -> String {
    if t.chance(1, 3) {
        let n = t.range(0, 6);
        (0..n).map(|_| *t.pick(&['a', 'b', 'a', 'b', 'A', ' ', '-'])).collect()
    } else {
        t.pick(ATTR_VALUES).to_string()
    }
}

const ODD_ATTR_NAMES: &[&str] = &["a\"b", "a'b", "a<b", "=x", "é", "x:y", "a_b", "1", "\"", "日"];
const ODD_UNQUOTED: &[&str] = &["c/", "a=b", "a'b", "a\"b", "a<b", "`", "é", "/", "x/y", "&amp;", "a&b"];
const ODD_QUOTED: &[&str] = &["a>b", " a ", "/>", "a=b", "x\ny", "<b>", "&quot;", "a\tb", "é😀"];

const WORDS: &[&str] = &["hello", "a", " ", "x y", "\u{feff}", "\u{feff}\u{e9}", "foo bar", "1 2", "\n", "a&b", "& ", "it's", "q\"q", "]]", "--", "=", "/", "?", "!"];
const MB_WORDS: &[&str] = &["é", "日本", "😀", "\u{a0}", "ü"];

pub struct Gen<'a, 't> {
    pub t: &'a mut Tape<'t>,
    pub o: &'a DocOpts,
    pub d: Doc,
    budget: usize,
    island_depth: usize,
    /// island depth at which a breakout tag ended the foreign content
    breakout_at: Option<usize>,
    /// HTML element name that must not be generated inside the enclosing integration point
    ip_excl: Option<&'static str>,
}

impl<'a, 't> Gen<'a, 't> {
    fn push(&mut self, s: &str) {
        if self.o.enc == encoding_rs::UTF_8 {
            self.d.bytes.extend_from_slice(s.as_bytes());
        } else {
            let (b, _, unmappable) = self.o.enc.encode(s);
            debug_assert!(!unmappable, "generator produced an unmappable char: {s:?}");
            self.d.bytes.extend_from_slice(&b);
        }
    }
    /// map the vocabulary's non-ASCII characters into the document encoding's safe pool
    fn m(&self, s: String) -> String {
        let s = if self.o.amp_safe { s.replace('&', "+") } else { s };
        if self.o.enc == encoding_rs::UTF_8 || s.is_ascii() {
            return s;
        }
        let p = crate::gens::enc::pool(crate::gens::enc::index_of(self.o.enc));
        s.chars().map(|c| if c.is_ascii() { c } else if p.safe.is_empty() { '?' } else { p.safe[(c as usize * 7 + 3) % p.safe.len()] }).collect()
    }
    fn pos(&self) -> usize {
        self.d.bytes.len()
    }

    fn text_str(&mut self, allow_lt: bool) -> String {
        let n = self.t.range(1, 3);
        let mut s = String::new();
        for _ in 0..n {
            if self.o.multibyte && self.t.chance(1, 5) {
                s.push_str(*self.t.pick(MB_WORDS));
            } else if allow_lt && self.t.chance(1, 8) {
                s.push_str(*self.t.pick(&["< ", "<1", "<=", "<"]));
                s.push(' ');
            } else {
                s.push_str(*self.t.pick(WORDS));
            }
        }
        self.m(s)
    }

    fn text(&mut self, ns: Ns) {
        // merge with a directly preceding text token so that one text node = one token
        let s = self.text_str(self.o.lt_in_text);
        let start = self.pos();
        self.push(&s);
        let endp = self.pos();
        if let Some(last) = self.d.toks.last_mut() {
            if last.kind == TK::Text && last.end == start && last.text_type == "Data" {
                last.end = endp;
                last.name.push_str(&s);
                return;
            }
        }
        self.d.toks.push(Tok { kind: TK::Text, start, end: self.pos(), name: s, ns, text_type: "Data", name_end: 0, island: self.island_depth > 0 });
    }

    fn comment(&mut self, ns: Ns) {
        if ns == Ns::Html && self.o.bogus_comments && self.t.chance(1, 5) {
            // bogus comments: everything up to the first '>' (comment text = what follows `<!` / `<` )
            let (open, text): (&str, String) = match self.t.below(if self.island_depth == 0 || self.o.bogus_cdata_in_ip { 4 } else { 3 }) {
                0 => ("<!", self.t.pick(&["x", "doctyp", "[CDAT", "-a", "", "DOCTYP e", "a--"]).to_string()),
                1 => ("<", format!("?{}", self.t.pick(&["xml a=b", "php", "", "x?"]))),
                2 => ("</", self.t.pick(&[" x", "1", "-", " ", "=a", "!"]).to_string()),
                _ => ("<!", format!("[CDATA[{}", self.t.pick(&["a", "x]]", "", "<b", "a]]", "a", ""]))),
            };
            let start = self.pos();
            self.push(open);
            self.push(&text);
            self.push(">");
            self.d.toks.push(Tok { kind: TK::Comment, start, end: self.pos(), name: text, ns, text_type: "", name_end: 0, island: self.island_depth > 0 });
            return;
        }
        let body = match self.t.below(8) {
            0 => "".to_string(),
            1 => " a ".to_string(),
            2 => "<div>".to_string(),
            3 => "a-b".to_string(),
            4 => "a -- b".to_string(),
            5 => if self.t.chance(1, 2) { "</script>".to_string() } else { "\u{feff}bom".to_string() },
            6 => self.text_str(false).replace("--", "- -").replace('>', ""),
            _ => "x".to_string(),
        };
        // avoid bodies that would end the comment early or change its end: starts with '>' or '->'; ends with '-'
        let body = if body.starts_with('>') || body.starts_with("->") || body.ends_with('-') || body.contains("-->") || body.contains("--!>") { "c".to_string() } else { body };
        let body = self.m(body);
        let start = self.pos();
        self.push("<!--");
        self.push(&body);
        self.push("-->");
        self.d.toks.push(Tok { kind: TK::Comment, start, end: self.pos(), name: body, ns, text_type: "", name_end: 0, island: self.island_depth > 0 });
    }

    fn doctype(&mut self) {
        let s = *self.t.pick(&["<!DOCTYPE html>", "<!doctype html>", "<!DOCTYPE html PUBLIC \"-//W3C//DTD HTML 4.01//EN\" \"http://www.w3.org/TR/html4/strict.dtd\">", "<!DOCTYPE x SYSTEM 'y'>", "<!DOCTYPE>", "<!DOCTYPE  a  >"]);
        let start = self.pos();
        self.push(s);
        self.d.toks.push(Tok { kind: TK::Doctype, start, end: self.pos(), name: s.to_string(), ns: Ns::Html, text_type: "", name_end: 0, island: self.island_depth > 0 });
    }

    fn no_esi(&self, name: &'static str, instead: &'static str) -> &'static str {
        if self.o.no_esi && name.starts_with("esi:") { instead } else { name }
    }

    fn attrs_text(&mut self, forced: &[(&str, &str)]) -> String {
        let mut s = String::new();
        let n = self.t.range(0, self.o.max_attrs);
        let mut after_quoted = false;
        let mut items: Vec<(String, Option<(u8, String)>)> = vec![];
        for (k, v) in forced {
            items.push((k.to_string(), Some((b'"', v.to_string()))));
        }
        for _ in 0..n {
            let name = if self.o.odd_attrs && self.t.chance(1, 8) { self.t.pick(ODD_ATTR_NAMES).to_string() } else { self.t.pick(ATTR_NAMES).to_string() };
            let v = match self.t.below(if self.o.odd_attrs { 8 } else { 6 }) {
                0 => None,
                1 | 2 => Some((b'"', attr_value(self.t))),
                3 => Some((b'\'', attr_value(self.t))),
                4 | 5 => {
                    let v = attr_value(self.t);
                    if v.is_empty() || v.contains(' ') { Some((b'"', v)) } else { Some((0, v)) }
                }
                6 => Some((0, self.t.pick(ODD_UNQUOTED).to_string())),
                _ => Some((*self.t.pick(&[b'"', b'\'']), self.t.pick(ODD_QUOTED).to_string())),
            };
            items.push((name, v));
        }
        for (name, v) in items {
            // separator
            let sep = if self.o.odd_attrs {
                if after_quoted && self.t.chance(1, 10) { "" } else { *self.t.pick(&[" ", " ", " ", "  ", "\n", "\t", "\u{c}", "/", " / "]) }
            } else {
                " "
            };
            s.push_str(sep);
            s.push_str(&name);
            after_quoted = false;
            if let Some((q, val)) = v {
                let eq = if self.o.odd_attrs { *self.t.pick(&["=", "=", "=", " = ", "= ", " ="]) } else { "=" };
                s.push_str(eq);
                match q {
                    0 => s.push_str(&val),
                    q => {
                        let val = val.replace(q as char, "");
                        s.push(q as char);
                        s.push_str(&val);
                        s.push(q as char);
                        after_quoted = true;
                    }
                }
            } else if self.o.odd_attrs && self.t.chance(1, 10) {
                // '=' without a value
                s.push_str(*self.t.pick(&["=", "= "]));
            }
        }
        self.m(s)
    }

    /// Emit a start tag; returns whether it was written with self-closing syntax.
    fn start_tag(&mut self, name: &str, ns: Ns, forced: &[(&str, &str)], allow_self_closing: bool, force_self_closing: bool) -> bool {
        let start = self.pos();
        self.push("<");
        self.push(name);
        let name_end = self.pos();
        let a = self.attrs_text(forced);
        self.push(&a);
        let sc = force_self_closing || (allow_self_closing && self.t.chance(1, 6));
        let ends_unquoted = a.ends_with(|c: char| !c.is_whitespace() && c != '"' && c != '\'') && a.contains('=');
        if sc {
            // "/>" directly after an unquoted value would become part of the value
            if ends_unquoted || a.ends_with('=') || a.ends_with("= ") { self.push(" />") } else { let e = *self.t.pick(&["/>", " />"]); self.push(e) }
        } else if self.o.odd_attrs && self.t.chance(1, 10) {
            self.push(" >");
        } else {
            self.push(">");
        }
        // the generator's idea of where the tag ends must be the byte-level truth (R-attr)
        let mut sc = sc;
        let ok = matches!(crate::model::attr::parse_tag(&self.d.bytes, start), Some(rt) if rt.end == Some(self.pos()) && rt.self_closing == sc);
        if !ok {
            self.d.bytes.truncate(name_end);
            for (k, v) in forced {
                let a = format!(" {k}=\"{v}\"");
                self.push(&a);
            }
            if force_self_closing { self.push("/>") } else { self.push(">") }
            sc = force_self_closing;
        }
        self.d.toks.push(Tok { kind: TK::Start, start, end: self.pos(), name: name.to_string(), ns, text_type: "", name_end, island: self.island_depth > 0 });
        sc
    }

    fn end_tag(&mut self, name: &str, ns: Ns) {
        let start = self.pos();
        self.push("</");
        self.push(name);
        let name_end = self.pos();
        if self.o.odd_attrs {
            let j = *self.t.pick(&["", "", "", " ", "\n", " x=y", "/"]);
            self.push(j);
        }
        self.push(">");
        self.d.toks.push(Tok { kind: TK::End, start, end: self.pos(), name: name.to_string(), ns, text_type: "", name_end, island: self.island_depth > 0 });
    }

    fn raw_content(&mut self, name: &str, tt: &'static str) -> String {
        let lname = name.to_ascii_lowercase();
        let mut s = String::new();
        let n = self.t.range(0, 3);
        for _ in 0..n {
            match self.t.below(8) {
                0 => s.push_str("<b>x</b>"),
                1 => s.push_str("</x>"),
                2 => {
                    // partial appropriate end tag followed by a non-terminator
                    s.push_str("</");
                    s.push_str(&lname[..lname.len() - 1]);
                    s.push_str("- ");
                }
                3 => s.push_str("<!-- c -->"),
                4 => s.push_str(" a < b "),
                5 if self.o.multibyte => s.push_str(*self.t.pick(MB_WORDS)),
                _ => s.push_str(*self.t.pick(WORDS)),
            }
        }
        if tt == "ScriptData" {
            // keep clear of the script escape states (C03 covers them differentially)
            s = s.replace("<!--", "<! --");
        }
        self.m(s)
    }

    fn raw_elem(&mut self, ns: Ns, last: bool, exclude_name: Option<&str>) {
        let (mut name, tt) = *self.t.pick(RAW_NAMES);
        if exclude_name.is_some() && name.eq_ignore_ascii_case("title") {
            // (open finding) an HTML <title> inside an SVG integration point closes it early
            name = "textarea";
        }
        self.d.has_rawtext = true;
        self.start_tag(name, ns, &[], false, false);
        let content = self.raw_content(name, tt);
        if !content.is_empty() {
            let start = self.pos();
            self.push(&content);
            self.d.toks.push(Tok { kind: TK::Text, start, end: self.pos(), name: content, ns, text_type: tt, name_end: 0, island: self.island_depth > 0 });
        }
        if last && self.o.misnest && self.t.chance(1, 6) {
            // unterminated: the rest of the document is its content (nothing follows)
            return;
        }
        let end_name = if self.t.chance(1, 5) { name.to_ascii_uppercase() } else { name.to_string() };
        self.end_tag(&end_name, ns);
    }

    /// HTML content. `closed`: well-formed only (inside integration points).
    fn html_items(&mut self, depth: usize, well_formed: bool, top: bool, exclude_name: Option<&str>) {
        let n = self.t.range(if top { 1 } else { 0 }, if top { self.o.max_items } else { 4 });
        for i in 0..n {
            if self.budget == 0 {
                return;
            }
            self.budget -= 1;
            let last = top && i + 1 == n;
            let k = self.t.weighted(&[
                6,                                                       // element
                3,                                                       // text
                2,                                                       // void
                if self.o.comments { 2 } else { 0 },                     // comment
                if self.o.rawtext { 2 } else { 0 },                      // raw text element
                if self.o.islands && depth < self.o.max_depth { 2 } else { 0 }, // island
                if self.o.misnest && !well_formed { 2 } else { 0 },      // stray end tag
                if self.o.doctype && top && i == 0 { 2 } else { 0 },     // doctype
            ]);
            match k {
                0 => {
                    let picked = *self.t.pick(HTML_NAMES);
                    let mut name = self.no_esi(picked, "div");
                    if let Some(x) = exclude_name {
                        if name.eq_ignore_ascii_case(x) {
                            name = "div";
                        }
                    }
                    // "well-formed HTML inside integration points": no <p>, whose implied end
                    // tag / phantom </p> handling is real tree construction (outside the
                    // property's claimed domain)
                    // likewise <li>, <a>, <td>: their start tags look up / close open elements
                    // of the same kind across the island boundary (and html5ever's scope and
                    // "special" sets differ from the specification for MathML integration points)
                    if well_formed && ["p", "li", "a", "td"].iter().any(|x| name.eq_ignore_ascii_case(x)) {
                        name = "div";
                    }
                    // self-closing syntax on a non-void HTML element is ignored by the parser
                    self.start_tag(name, Ns::Html, &[], self.o.odd_attrs, false);
                    if depth < self.o.max_depth {
                        self.html_items(depth + 1, well_formed, false, exclude_name);
                    }
                    let omit = self.o.misnest && !well_formed && self.t.chance(1, 5);
                    if omit {
                        self.d.has_misnest = true;
                    } else {
                        let en = if self.t.chance(1, 6) { name.to_ascii_uppercase() } else { name.to_string() };
                        self.end_tag(&en, Ns::Html);
                    }
                }
                1 => self.text(Ns::Html),
                2 => {
                    let picked = *self.t.pick(VOID_NAMES);
                    let name = self.no_esi(picked, "br");
                    self.start_tag(name, Ns::Html, &[], true, false);
                }
                3 => self.comment(Ns::Html),
                4 => self.raw_elem(Ns::Html, last && !well_formed, exclude_name),
                5 => self.island(depth + 1),
                6 => {
                    self.d.has_misnest = true;
                    let picked = *self.t.pick(HTML_NAMES);
                    let name = self.no_esi(picked, "div");
                    self.end_tag(name, Ns::Html);
                }
                _ => self.doctype(),
            }
        }
    }

    fn cdata(&mut self, ns: Ns) {
        let start = self.pos();
        self.push("<![CDATA[");
        self.d.toks.push(Tok { kind: TK::CdataMarker, start, end: self.pos(), name: String::new(), ns, text_type: "", name_end: 0, island: self.island_depth > 0 });
        let body = match self.t.below(9) {
            0 => String::new(),
            1 => "<b>x</b>".to_string(),
            2 => "a ] b ]] c".to_string(),
            3 => "</svg>".to_string(),
            // runs of ']' right before the closing "]]>" (odd and even)
            4 => "a[b[0]".to_string(),
            5 => "]".to_string(),
            6 => "x]]".to_string(),
            7 => "]]]".to_string(),
            _ => self.text_str(false).replace("]]>", ""),
        };
        if !body.is_empty() {
            let s = self.pos();
            self.push(&body);
            self.d.toks.push(Tok { kind: TK::Text, start: s, end: self.pos(), name: body, ns, text_type: "CDataSection", name_end: 0, island: self.island_depth > 0 });
        }
        let s = self.pos();
        self.push("]]>");
        self.d.toks.push(Tok { kind: TK::CdataMarker, start: s, end: self.pos(), name: String::new(), ns, text_type: "", name_end: 0, island: self.island_depth > 0 });
    }

    fn foreign_items(&mut self, ns: Ns, depth: usize) {
        let n = self.t.range(0, 4);
        for _ in 0..n {
            if self.budget == 0 || self.breakout_at == Some(self.island_depth) {
                return;
            }
            self.budget -= 1;
            match self.t.weighted(&[8, 4, 2, 4, 6, if self.o.breakouts { 1 } else { 0 }]) {
                5 => {
                    match self.t.below(4) {
                        3 => {
                            // <font> without color/face/size stays a foreign element
                            let sc = self.start_tag("font", ns, &[], true, false);
                            if !sc {
                                if depth < self.o.max_depth {
                                    self.foreign_items(ns, depth + 1);
                                }
                                self.end_tag("font", ns);
                            }
                        }
                        2 => {
                            let name = *self.t.pick(&["br", "img", "hr", "embed"]);
                            self.start_tag(name, Ns::Html, &[], true, false);
                            self.breakout_at = Some(self.island_depth);
                            return;
                        }
                        k => {
                            let (name, forced): (&str, Vec<(&str, &str)>) = if k == 0 { ("font", vec![(*self.t.pick(&["color", "face", "size", "COLOR"]), "x")]) } else { (*self.t.pick(&["b", "div", "span", "p", "i", "em", "ul", "h1", "code"]), vec![]) };
                            self.start_tag(name, Ns::Html, &forced, false, false);
                            if depth < self.o.max_depth {
                                // (HTML content again: what the enclosing integration point excludes stays excluded)
                                let excl = self.ip_excl;
                                self.html_items(depth + 1, true, false, excl);
                            }
                            self.end_tag(name, Ns::Html);
                            self.breakout_at = Some(self.island_depth);
                            return;
                        }
                    }
                }
                0 => {
                    let name = *self.t.pick(if ns == Ns::Svg { SVG_NAMES } else { MATH_NAMES });
                    let sc = self.start_tag(name, ns, &[], true, false);
                    if !sc {
                        if depth < self.o.max_depth {
                            self.foreign_items(ns, depth + 1);
                        }
                        self.end_tag(name, ns);
                    }
                }
                1 => {
                    // foreign text: no '<'
                    let s = self.text_str(false);
                    let start = self.pos();
                    self.push(&s);
                    let endp = self.pos();
                    if let Some(last) = self.d.toks.last_mut() {
                        if last.kind == TK::Text && last.end == start && last.text_type == "Data" {
                            last.end = endp;
                            last.name.push_str(&s);
                            continue;
                        }
                    }
                    self.d.toks.push(Tok { kind: TK::Text, start, end: self.pos(), name: s, ns, text_type: "Data", name_end: 0, island: self.island_depth > 0 });
                }
                2 => self.comment(ns),
                3 => self.cdata(ns),
                _ => self.integration_point(ns, depth),
            }
        }
    }

    fn integration_point(&mut self, ns: Ns, depth: usize) {
        let (name, forced): (&str, Vec<(&str, &str)>) = if ns == Ns::Svg {
            (*self.t.pick(&["foreignObject", "desc", "title", "foreignobject", "DESC"]), vec![])
        } else {
            match if self.o.no_annotation_xml { 1 + self.t.below(2) } else { self.t.below(3) } {
                0 => ("annotation-xml", vec![("encoding", *self.t.pick(&["text/html", "application/xhtml+xml", "TEXT/HTML"]))]),
                _ => (*self.t.pick(&["mi", "mo", "mn", "ms", "mtext"]), vec![]),
            }
        };
        // a self-closing integration point does not enter HTML
        let want_sc = self.t.chance(1, 8);
        let sc = self.start_tag(name, ns, &forced, false, want_sc);
        if sc {
            return;
        }
        // an HTML element named like an integration point of the enclosing foreign namespace
        // closes the integration point early (open finding); only `title` is in the vocabulary
        let excl = if finding_open("C03-same-name-in-integration-point") && ns == Ns::Svg { Some("title") } else { None };
        let saved = self.ip_excl;
        self.ip_excl = excl;
        if self.o.bogus_cdata_in_ip && self.t.chance(1, 3) {
            // `<![CDATA[` in the HTML content of the integration point: a bogus comment up to the first '>'
            let text = format!("[CDATA[{}", self.t.pick(&["a", " 1 ", "", "x]]"]));
            let start = self.pos();
            self.push("<!");
            self.push(&text);
            self.push(">");
            self.d.toks.push(Tok { kind: TK::Comment, start, end: self.pos(), name: text, ns: Ns::Html, text_type: "", name_end: 0, island: true });
        }
        if depth < self.o.max_depth {
            self.html_items(depth + 1, true, false, excl);
        }
        self.ip_excl = saved;
        self.end_tag(name, Ns::Html);
    }

    fn island(&mut self, depth: usize) {
        self.d.has_island = true;
        let (name, ns) = if self.t.chance(1, 2) { (*self.t.pick(&["svg", "SVG", "svg"]), Ns::Svg) } else { ("math", Ns::MathMl) };
        let sc_ok = !finding_open("C03-self-closing-foreign-root");
        let want_sc = self.t.chance(1, 10) && sc_ok;
        self.island_depth += 1;
        let sc = self.start_tag(name, ns, &[], false, want_sc);
        if !sc {
            self.foreign_items(ns, depth);
            self.end_tag(name, ns);
        }
        if self.breakout_at == Some(self.island_depth) {
            self.breakout_at = None;
        }
        self.island_depth -= 1;
    }
}

pub fn doc(t: &mut Tape<'_>, o: &DocOpts) -> Doc {
    let mut g = Gen { t, o, d: Doc { enc: o.enc, ..Doc::default() }, budget: o.max_items * 3, island_depth: 0, breakout_at: None, ip_excl: None };
    let mut wrappers: Vec<&'static str> = vec![];
    if o.deep_wrappers && g.t.chance(1, 10) {
        let n = *g.t.pick(&[7usize, 8, 9, 15, 16, 17, 31, 33, 40]);
        for _ in 0..n {
            let name = *g.t.pick(&["div", "span", "section", "div", "ul", "custom-element"]);
            g.start_tag(name, Ns::Html, &[], false, false);
            wrappers.push(name);
        }
    }
    g.html_items(0, false, true, None);
    // close some of the wrappers (innermost first); the rest stays open until the end of input
    // (only when the content did not end inside an unterminated construct - raw text, comment,
    // CDATA, foreign island - in which the end tags would not be tags)
    let tail_ok = g.island_depth == 0
        && match g.d.toks.last() {
            None => true,
            Some(t) => match t.kind {
                TK::End => t.ns == Ns::Html,
                TK::Start => t.ns == Ns::Html && !RAW_NAMES.iter().any(|r| r.0.eq_ignore_ascii_case(&t.name)) && !t.name.eq_ignore_ascii_case("plaintext") && g.d.bytes.ends_with(b">"),
                TK::Text => t.text_type == "Data" && t.ns == Ns::Html,
                _ => false,
            },
        };
    let close = if wrappers.is_empty() || !tail_ok { 0 } else { g.t.below(wrappers.len() + 1) };
    for name in wrappers.iter().rev().take(close) {
        g.end_tag(name, Ns::Html);
    }
    g.d
}

/// Hand-built documents for fixed regression cases: `parts` = (kind, raw bytes, name/text, ns, text type).
pub fn build(parts: &[(TK, &str, &str, Ns, &'static str)]) -> Doc {
    let mut d = Doc::default();
    for (kind, raw, name, ns, tt) in parts {
        let start = d.bytes.len();
        d.bytes.extend_from_slice(raw.as_bytes());
        let name_end = match kind {
            TK::Start => start + 1 + name.len(),
            TK::End => start + 2 + name.len(),
            _ => 0,
        };
        d.toks.push(Tok { kind: *kind, start, end: d.bytes.len(), name: name.to_string(), ns: *ns, text_type: tt, name_end, island: *ns != Ns::Html });
    }
    d
}
