//! G-handlers: observer sets.
use crate::obs::{Cfg, DocSpec, SelSpec};
use crate::tape::Tape;

pub const SPARSE_SELECTORS: &[&str] = &[
    "*", "div", "p", "span", "a", "b", "script", "style", "title", "textarea", "svg", "math", "select", "template", "table", "td", "li",
    "div > p", "div p", "a[href]", "[id]", "div[id] > span", "p:first-child", "*:nth-child(2)", "svg *", "foreignObject *", "mi", "title *", "body > *",
    "custom-element", "averyveryverylongtagname", ":not(div)", "p:not([id])", "li:nth-of-type(2n+1)", "h1, h2", "br", "img", "meta", "font", "option", "xmp", "plaintext", "noscript", "iframe",
];

/// observer-only handler configuration (never mutates)
pub fn observers(t: &mut Tape<'_>, cfg: &mut Cfg, max_sels: usize, max_docs: usize) {
    // occasionally many registrations: never-matching fillers first, so that the real handlers
    // get ids beyond one or two 32-bit words of the VM's match sets
    if max_sels > 0 && t.chance(1, 12) {
        let n = *t.pick(&[30usize, 31, 32, 33, 63, 64, 65]);
        for k in 0..n {
            let sel = match k % 3 { 0 => format!("zfill{k}"), 1 => format!("zfill{k}[zz]"), _ => format!("p > zfill{k}") };
            cfg.sels.push(SelSpec { sel, el: true, end_tag: k % 2 == 0, text: k % 4 == 0, comments: k % 5 == 0, ops: vec![] });
        }
    }
    let ns = t.range(0, max_sels);
    for _ in 0..ns {
        // mostly the fixed pool (shared prefixes, known text-mode / foreign elements); one in
        // five is a generated selector over the full grammar (attribute operators, :not, nth)
        let sel = if t.chance(1, 5) { crate::model::css::render(&crate::gens::sel::selector_set(t, 1, true)[0]) } else { t.pick(SPARSE_SELECTORS).to_string() };
        let mask = t.range(1, 15);
        cfg.sels.push(SelSpec { sel, el: mask & 1 != 0, end_tag: mask & 2 != 0, text: mask & 4 != 0, comments: mask & 8 != 0, ops: vec![] });
    }
    let nd = t.range(0, max_docs);
    for _ in 0..nd {
        let mask = t.range(1, 15);
        cfg.docs.push(DocSpec { doctype: mask & 1 != 0, comments: mask & 2 != 0, text: mask & 4 != 0, end: mask & 8 != 0, ops: vec![] });
    }
}

use crate::obs::{CT, Kind, Op, ScriptOp};

pub const STRS: &[&str] = &[
    "X", "", "<b>", "</div>", "a&b", "<!--", "-->", "\"q\"", "'", "x y", "é", "😀", "<script>", "</script>", "&lt;", "]]>", "\u{0}", "a=b", "/>", "<p>in</p>", "T1", "T2", "T3",
];
pub const ATTR_NAMES: &[&str] = &["id", "class", "href", "data-x", "A", "x:y", "b", "e", "bad name", "", "a=b", "q\"", "é"];
pub const TAG_NAMES: &[&str] = &["div", "span", "x-y", "B", "section", "1bad", "", "a b", "a>", "é", "zé"];

pub fn gstr(t: &mut Tape<'_>) -> String {
    t.pick(STRS).to_string()
}
pub fn ct(t: &mut Tape<'_>) -> CT {
    if t.chance(1, 2) { CT::Text } else { CT::Html }
}

fn element_op(t: &mut Tape<'_>) -> Op {
    match t.below(16) {
        0 => Op::Before(gstr(t), ct(t)),
        1 => Op::After(gstr(t), ct(t)),
        2 => Op::Prepend(gstr(t), ct(t)),
        3 => Op::Append(gstr(t), ct(t)),
        4 => Op::SetInner(gstr(t), ct(t)),
        5 => Op::Replace(gstr(t), ct(t)),
        6 => Op::Remove,
        7 => Op::RemoveKeep,
        8 => Op::SetAttr(t.pick(ATTR_NAMES).to_string(), gstr(t)),
        9 => Op::RemoveAttr(t.pick(ATTR_NAMES).to_string()),
        10 => Op::SetTagName(t.pick(TAG_NAMES).to_string()),
        11 => Op::StartBefore(gstr(t), ct(t)),
        12 => Op::StartAfter(gstr(t), ct(t)),
        13 => Op::StreamBefore(vec![gstr(t), gstr(t)], ct(t)),
        14 => Op::StreamAfter(vec![gstr(t), gstr(t)], ct(t)),
        _ => {
            let mut v = vec![token_op(t)];
            if t.chance(1, 3) {
                v.push(Op::SetTagName(t.pick(TAG_NAMES).to_string()));
            }
            Op::OnEndTag(v)
        }
    }
}

fn token_op(t: &mut Tape<'_>) -> Op {
    match t.below(6) {
        0 => Op::Before(gstr(t), ct(t)),
        1 => Op::After(gstr(t), ct(t)),
        2 => Op::Replace(gstr(t), ct(t)),
        3 => Op::Remove,
        4 => Op::StreamReplace(vec![gstr(t), gstr(t)], ct(t)),
        _ => Op::SetText(gstr(t)),
    }
}

/// Add fragmentation-independent mutation scripts to the handlers already in `cfg` (or add a
/// mutating handler if there is none). Text ops act on the `last_in_text_node` chunk, or
/// `remove()` every chunk.
pub fn mutators(t: &mut Tape<'_>, cfg: &mut Cfg) {
    if cfg.sels.is_empty() || t.chance(1, 3) {
        cfg.sels.push(SelSpec { sel: t.pick(SPARSE_SELECTORS).to_string(), ..Default::default() });
    }
    if t.chance(1, 3) && cfg.docs.is_empty() {
        cfg.docs.push(DocSpec::default());
    }
    let n = t.range(1, 4);
    for _ in 0..n {
        let nth = if t.chance(1, 2) { None } else { Some(t.below(4)) };
        let kind = *t.pick(&[Kind::Element, Kind::Element, Kind::Element, Kind::Text, Kind::Comment, Kind::EndTag]);
        let (every_chunk, op) = match kind {
            Kind::Element => (false, element_op(t)),
            Kind::Text => {
                if t.chance(1, 4) {
                    (true, Op::Remove)
                } else {
                    let mut op = token_op(t);
                    if matches!(op, Op::SetText(_)) {
                        op = Op::Remove;
                    }
                    (false, op)
                }
            }
            _ => (false, token_op(t)),
        };
        let so = ScriptOp { kind, nth, every_chunk, op };
        let use_doc = !cfg.docs.is_empty() && matches!(kind, Kind::Text | Kind::Comment) && t.chance(1, 2);
        if use_doc {
            let i = t.below(cfg.docs.len());
            cfg.docs[i].ops.push(so);
        } else {
            let i = t.below(cfg.sels.len());
            cfg.sels[i].ops.push(so);
        }
    }
    if t.chance(1, 4) {
        // 1-3 document-end handlers on separate registrations, each appending different content
        // (they run one after the other in end(); a failure in one must stop the rest)
        let k = t.range(1, 3);
        for j in 0..k {
            if cfg.docs.len() <= j {
                cfg.docs.push(DocSpec::default());
            }
            let s = format!("{}{}", gstr(t), ["", "[E1]", "[E2]"][j]);
            cfg.docs[j].ops.push(ScriptOp { kind: Kind::DocEnd, nth: None, every_chunk: false, op: Op::Append(s, ct(t)) });
        }
    }
}
