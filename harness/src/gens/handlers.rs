//! G-handlers: observer sets.
use crate::obs::{Cfg, DocSpec, SelSpec};
use crate::tape::Tape;

pub const SPARSE_SELECTORS: &[&str] = &[
    "*", "div", "p", "span", "a", "b", "script", "style", "title", "textarea", "svg", "math", "select", "template", "table", "td", "li",
    "div > p", "div p", "a[href]", "[id]", "div[id] > span", "p:first-child", "*:nth-child(2)", "svg *", "foreignObject *", "mi", "title *", "body > *",
    "custom-element", "averyveryverylongtagname", ":not(div)", "p:not([id])", "li:nth-of-type(2n+1)", "h1, h2", "br", "img", "meta", "font", "option", "xmp", "plaintext", "noscript", "iframe",
];

/// observer-only handler configuration (never mutates)
pub fn observers(t: &mut Tape<'_>, cfg: &mut Cfg, max_sels: usize, max_docs: usize) {
    let ns = t.range(0, max_sels);
    for _ in 0..ns {
        let sel = t.pick(SPARSE_SELECTORS).to_string();
        let mask = t.range(1, 15);
        cfg.sels.push(SelSpec { sel, el: mask & 1 != 0, end_tag: mask & 2 != 0, text: mask & 4 != 0, comments: mask & 8 != 0, ops: vec![] });
    }
    let nd = t.range(0, max_docs);
    for _ in 0..nd {
        let mask = t.range(1, 15);
        cfg.docs.push(DocSpec { doctype: mask & 1 != 0, comments: mask & 2 != 0, text: mask & 4 != 0, end: mask & 8 != 0, ops: vec![] });
    }
}
