pub mod soup;
pub mod sched;
pub mod handlers;
pub mod enc;
pub mod input;
pub mod doc;
pub mod sel;
