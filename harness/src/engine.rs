//! proptest TestRunner driver: sharding over cores, shrinking, replay files, regression tier,
//! known-finding handling and evidence writing.

use proptest::strategy::{Strategy, ValueTree};
use proptest::test_runner::{Config, RngSeed, TestCaseError, TestError, TestRunner};
use serde_json::{Value, json};
use std::cell::RefCell;
use std::collections::{BTreeMap, HashSet};
use std::panic::{AssertUnwindSafe, catch_unwind};
use std::path::{Path, PathBuf};
use std::sync::Mutex;
use std::time::Instant;

#[derive(Clone, Copy, PartialEq, Eq, Debug)]
pub enum Tier {
    Quick,
    Thorough,
}

impl Tier {
    pub fn name(self) -> &'static str {
        match self {
            Tier::Quick => "quick",
            Tier::Thorough => "thorough",
        }
    }
}

/// per-shard cap on the set of distinct non-trivial case hashes (memory bound)
pub const NONTRIVIAL_CAP: usize = 400_000;

#[derive(Default)]
pub struct Stats {
    /// executions of the code under test (rewriter runs, API call sequences)
    pub evals: u64,
    /// generated cases
    pub cases: u64,
    pub nontrivial: HashSet<u64>,
    pub labels: BTreeMap<String, u64>,
    pub samples: Vec<Value>,
    pub excluded: BTreeMap<String, u64>,
    pub known_hits: BTreeMap<String, u64>,
    /// results of deterministic extras (complexity ratios, family outcomes)
    pub extra_results: Vec<Value>,
    /// when set (during shrinking / replay) nothing is counted
    pub frozen: bool,
}

impl Stats {
    #[inline]
    pub fn eval(&mut self) {
        if !self.frozen {
            self.evals += 1;
        }
    }
    #[inline]
    pub fn evals_add(&mut self, n: u64) {
        if !self.frozen {
            self.evals += n;
        }
    }
    pub fn label(&mut self, l: &str) {
        if !self.frozen {
            *self.labels.entry(l.to_string()).or_default() += 1;
        }
    }
    pub fn label_if(&mut self, c: bool, l: &str) {
        if c {
            self.label(l);
        }
    }
    pub fn excluded(&mut self, l: &str) {
        if !self.frozen {
            *self.excluded.entry(l.to_string()).or_default() += 1;
        }
    }
    /// Record a distinct non-trivial case (by hash of its content); returns true if new.
    pub fn nontrivial(&mut self, hash: u64) -> bool {
        if self.frozen {
            return false;
        }
        if self.nontrivial.len() >= NONTRIVIAL_CAP {
            // counted conservatively: distinct non-trivial cases beyond the cap are not counted
            return false;
        }
        self.nontrivial.insert(hash)
    }
    pub fn sample(&mut self, f: impl FnOnce() -> Value) {
        if !self.frozen && self.samples.len() < 4 {
            self.samples.push(f());
        }
    }
    fn merge(&mut self, o: Stats) {
        self.evals += o.evals;
        self.cases += o.cases;
        self.nontrivial.extend(o.nontrivial);
        for (k, v) in o.labels {
            *self.labels.entry(k).or_default() += v;
        }
        for (k, v) in o.excluded {
            *self.excluded.entry(k).or_default() += v;
        }
        for (k, v) in o.known_hits {
            *self.known_hits.entry(k).or_default() += v;
        }
        for s in o.samples {
            if self.samples.len() < 6 {
                self.samples.push(s);
            }
        }
        self.extra_results.extend(o.extra_results);
    }
}

#[derive(Debug, Clone)]
pub struct Failure {
    pub msg: String,
    /// id of the known finding whose signature this failing case matches
    pub known: Option<String>,
}

/// marker for a panic of the harness itself (generator/model bug): reported as inconclusive
/// (exit 2), never as a violation of the property
pub const HARNESS_BUG: &str = "__harness_bug__";
static HARNESS_BUGS: Mutex<Vec<String>> = Mutex::new(Vec::new());

impl Failure {
    pub fn new(msg: impl Into<String>) -> Self {
        Failure { msg: msg.into(), known: None }
    }
    pub fn known(id: &str, msg: impl Into<String>) -> Self {
        Failure { msg: msg.into(), known: Some(id.to_string()) }
    }
}

pub type PResult = Result<(), Failure>;

#[macro_export]
macro_rules! fail {
    ($($a:tt)*) => { return Err($crate::engine::Failure::new(format!($($a)*))) };
}

#[macro_export]
macro_rules! ensure {
    ($c:expr, $($a:tt)*) => { if !($c) { return Err($crate::engine::Failure::new(format!($($a)*))); } };
}

pub struct Plan {
    pub cases: u64,
    pub tape_len: usize,
}

pub struct Ctx {
    pub tier: Tier,
    pub seed: u64,
    pub root: PathBuf,
    pub threads: usize,
}

/// A hand-written regression / known-finding case that bypasses the generator library.
pub struct FixedCase {
    pub name: &'static str,
    /// id of the known finding this case demonstrates (None: plain regression case)
    pub finding: Option<&'static str>,
    pub what: &'static str,
    pub run: Box<dyn Fn(&mut Stats) -> PResult + Send + Sync>,
}

pub trait Prop: Sync {
    /// explicit regression cases (shrunk counter-examples of fixed defects, sensitivity seeds)
    /// and demonstrations of open known findings
    fn fixed_cases(&self) -> Vec<FixedCase> {
        vec![]
    }
    fn id(&self) -> &'static str;
    fn level(&self) -> &'static str {
        "exploration"
    }
    fn rule(&self) -> String;
    fn assumptions(&self) -> Vec<String> {
        vec![]
    }
    fn plan(&self, tier: Tier) -> Plan;
    /// decode the tape into a case and check the oracle
    fn run(&self, tape: &[u16], st: &mut Stats) -> PResult;
    /// decoded case, human readable (for replay files and samples)
    fn describe(&self, tape: &[u16]) -> Value;
    /// deterministic non-generated parts (fixed families, sweeps); default none
    fn extra(&self, _ctx: &Ctx, _st: &mut Stats) -> Result<(), (Failure, Value)> {
        Ok(())
    }
    /// extra keys for the evidence coverage object
    fn coverage_extra(&self, _st: &Stats) -> Vec<(String, Value)> {
        vec![]
    }
}

thread_local! {
    static LAST_PANIC: RefCell<Option<String>> = const { RefCell::new(None) };
    static GUARD_DEPTH: std::cell::Cell<usize> = const { std::cell::Cell::new(0) };
}

pub fn install_quiet_panic_hook() {
    std::panic::set_hook(Box::new(|info| {
        let loc = info.location().map(|l| format!("{}:{}", l.file(), l.line())).unwrap_or_default();
        let msg = if let Some(s) = info.payload().downcast_ref::<&str>() {
            s.to_string()
        } else if let Some(s) = info.payload().downcast_ref::<String>() {
            s.clone()
        } else {
            "<non-string panic>".to_string()
        };
        if GUARD_DEPTH.with(|d| d.get()) == 0 {
            eprintln!("UNGUARDED PANIC: {msg} @ {loc}");
        }
        LAST_PANIC.with(|p| *p.borrow_mut() = Some(format!("{msg} @ {loc}")));
    }));
}

pub fn take_last_panic() -> String {
    LAST_PANIC.with(|p| p.borrow_mut().take()).unwrap_or_else(|| "<unknown panic>".into())
}

/// Run `f`, turning a panic into `Err(message @ location)`.
pub fn guard<T>(f: impl FnOnce() -> T) -> Result<T, String> {
    GUARD_DEPTH.with(|d| d.set(d.get() + 1));
    let r = catch_unwind(AssertUnwindSafe(f));
    GUARD_DEPTH.with(|d| d.set(d.get() - 1));
    match r {
        Ok(v) => Ok(v),
        Err(_) => Err(take_last_panic()),
    }
}

fn run_guarded(prop: &dyn Prop, tape: &[u16], st: &mut Stats) -> PResult {
    match guard(|| prop.run(tape, st)) {
        Ok(r) => r,
        Err(p) => {
            // every call into the library is wrapped in its own guard by the property code, so a
            // panic arriving here is a bug of the harness (generator, model, oracle)
            let mut b = HARNESS_BUGS.lock().unwrap();
            if b.len() < 5 {
                b.push(format!("{p} (tape of {} entries)", tape.len()));
            }
            Err(Failure::known(HARNESS_BUG, format!("harness panic: {p}")))
        }
    }
}

// ---------------------------------------------------------------------------------------------
// known findings

#[derive(Clone, Debug)]
pub struct Finding {
    pub property: String,
    pub id: String,
    pub status: String,
    pub what: String,
    pub replay: Option<String>,
}

static FINDINGS: Mutex<Vec<Finding>> = Mutex::new(Vec::new());

pub fn load_findings(root: &Path) {
    let p = root.join("known_findings.json");
    let mut out = vec![];
    if let Ok(s) = std::fs::read_to_string(&p) {
        if let Ok(v) = serde_json::from_str::<Value>(&s) {
            for f in v["findings"].as_array().cloned().unwrap_or_default() {
                out.push(Finding {
                    property: f["property"].as_str().unwrap_or("").to_string(),
                    id: f["id"].as_str().unwrap_or("").to_string(),
                    status: f["status"].as_str().unwrap_or("").to_string(),
                    what: f["what"].as_str().unwrap_or("").to_string(),
                    replay: f["replay"].as_str().map(|s| s.to_string()),
                });
            }
        }
    }
    *FINDINGS.lock().unwrap() = out;
}

/// Is there an *open* known finding with this id? (Generators exclude its signature by
/// construction and a failure matching it is not reported as a violation.)
pub fn finding_open(id: &str) -> bool {
    FINDINGS.lock().unwrap().iter().any(|f| f.id == id && f.status == "open")
}

fn findings_for(prop: &str) -> Vec<Finding> {
    FINDINGS.lock().unwrap().iter().filter(|f| f.property == prop).cloned().collect()
}

// ---------------------------------------------------------------------------------------------

fn read_tape(path: &Path) -> Result<Vec<u16>, String> {
    let s = std::fs::read_to_string(path).map_err(|e| format!("{}: {e}", path.display()))?;
    let v: Value = serde_json::from_str(&s).map_err(|e| format!("{}: {e}", path.display()))?;
    let arr = v["tape"].as_array().ok_or_else(|| format!("{}: no tape", path.display()))?;
    Ok(arr.iter().map(|x| x.as_u64().unwrap_or(0) as u16).collect())
}

fn ensure_fixed_case_file(path: &Path, prop: &str, fc: &FixedCase) {
    if !path.exists() {
        if let Some(d) = path.parent() {
            let _ = std::fs::create_dir_all(d);
        }
        let v = json!({"property": prop, "fixed_case": fc.name, "what": fc.what, "finding": fc.finding});
        let _ = std::fs::write(path, serde_json::to_string_pretty(&v).unwrap());
    }
}

/// Write the replay descriptor files of all fixed cases (so that they can be committed).
pub fn dump_fixed_cases(prop: &dyn Prop, root: &Path) {
    for fc in prop.fixed_cases() {
        let path = root.join("replays").join("regress").join(prop.id()).join(format!("{}.json", fc.name));
        let _ = std::fs::remove_file(&path);
        ensure_fixed_case_file(&path, prop.id(), &fc);
    }
}

fn write_replay(ctx: &Ctx, prop: &dyn Prop, tape: &[u16], msg: &str, tag: &str) -> PathBuf {
    let dir = ctx.root.join("replays").join("found");
    let _ = std::fs::create_dir_all(&dir);
    let h = crate::tape::fnv(&tape.iter().flat_map(|v| v.to_le_bytes()).collect::<Vec<u8>>());
    let path = dir.join(format!("{}-{}-{:016x}.json", prop.id(), tag, h));
    let case = guard(|| prop.describe(tape)).unwrap_or_else(|e| json!({"describe_panicked": e}));
    let v = json!({ "property": prop.id(), "message": msg, "tape": tape, "case": case });
    let _ = std::fs::write(&path, serde_json::to_string_pretty(&v).unwrap());
    path
}

struct ShardOut {
    stats: Stats,
    failure: Option<(Vec<u16>, String)>,
}

fn run_shard(prop: &dyn Prop, plan_cases: u64, tape_len: usize, seed: u64) -> ShardOut {
    let config = Config {
        cases: plan_cases as u32,
        failure_persistence: None,
        rng_seed: RngSeed::Fixed(seed),
        max_shrink_iters: 6000,
        max_shrink_time: 0,
        verbose: 0,
        source_file: None,
        ..Config::default()
    };
    let mut runner = TestRunner::new(config);
    // at least a third of the maximum length, so that few cases are degraded by an exhausted tape
    let strat = proptest::collection::vec(proptest::num::u16::ANY, tape_len / 3..=tape_len);
    let stats = RefCell::new(Stats::default());
    let res = runner.run(&strat, |tape| {
        let mut st = stats.borrow_mut();
        if !st.frozen {
            st.cases += 1;
        }
        match run_guarded(prop, &tape, &mut st) {
            Ok(()) => Ok(()),
            Err(f) => {
                if let Some(k) = f.known {
                    if !st.frozen {
                        *st.known_hits.entry(k).or_default() += 1;
                    }
                    Ok(())
                } else {
                    st.frozen = true;
                    Err(TestCaseError::fail(f.msg))
                }
            }
        }
    });
    let failure = match res {
        Ok(()) => None,
        Err(TestError::Fail(reason, tape)) => Some((tape, reason.message().to_string())),
        Err(TestError::Abort(reason)) => Some((vec![], format!("proptest aborted: {}", reason.message()))),
    };
    ShardOut { stats: stats.into_inner(), failure }
}

/// Second-stage shrink: proptest's vec shrinker stops at a local minimum quickly for tapes;
/// greedily delete spans and zero/halve entries while the failure (same known-class) persists.
fn shrink_more(prop: &dyn Prop, tape: Vec<u16>) -> Vec<u16> {
    let mut st = Stats { frozen: true, ..Stats::default() };
    let mut fails = |t: &[u16]| matches!(run_guarded(prop, t, &mut st), Err(f) if f.known.is_none());
    let mut cur = tape;
    let mut budget = 4000usize;
    let mut progress = true;
    while progress && budget > 0 {
        progress = false;
        // trailing zeros carry no information
        while cur.last() == Some(&0) {
            cur.pop();
        }
        let mut span = (cur.len() / 2).max(1);
        while span >= 1 && budget > 0 {
            let mut i = 0;
            while i + span <= cur.len() && budget > 0 {
                let mut t = cur.clone();
                t.drain(i..i + span);
                budget = budget.saturating_sub(1);
                if fails(&t) {
                    cur = t;
                    progress = true;
                } else {
                    i += span;
                }
            }
            if span == 1 {
                break;
            }
            span /= 2;
        }
        for i in 0..cur.len() {
            if budget == 0 {
                break;
            }
            if cur[i] == 0 {
                continue;
            }
            for cand in [0u16, cur[i] / 2, cur[i] - 1] {
                if cand >= cur[i] || budget == 0 {
                    continue;
                }
                let mut t = cur.clone();
                t[i] = cand;
                budget = budget.saturating_sub(1);
                if fails(&t) {
                    cur = t;
                    progress = true;
                    break;
                }
            }
        }
    }
    cur
}

pub fn mix(seed: u64, shard: u64, salt: u64) -> u64 {
    let mut z = seed.wrapping_mul(0x9E3779B97F4A7C15) ^ shard.wrapping_mul(0xBF58476D1CE4E5B9) ^ salt.wrapping_mul(0x94D049BB133111EB);
    z ^= z >> 30;
    z = z.wrapping_mul(0xBF58476D1CE4E5B9);
    z ^= z >> 27;
    z = z.wrapping_mul(0x94D049BB133111EB);
    z ^ (z >> 31)
}

fn write_evidence(ctx: &Ctx, prop: &dyn Prop, st: &Stats, wall: f64, violations: u64, notes: Vec<String>) {
    let dir = ctx.root.join("evidence");
    let _ = std::fs::create_dir_all(&dir);
    let mut cov = serde_json::Map::new();
    cov.insert("evaluations".into(), json!(st.evals.max(st.cases)));
    cov.insert("cases_generated".into(), json!(st.cases));
    cov.insert("distinct_nontrivial".into(), json!(st.nontrivial.len()));
    cov.insert("rule".into(), json!(prop.rule()));
    cov.insert("samples".into(), json!(st.samples));
    cov.insert("labels".into(), json!(st.labels));
    cov.insert("excluded_by_construction".into(), json!(st.excluded));
    cov.insert("known_finding_hits".into(), json!(st.known_hits));
    cov.insert("exhaustive".into(), json!(false));
    if !st.extra_results.is_empty() {
        cov.insert("extra_results".into(), json!(st.extra_results));
    }
    if !notes.is_empty() {
        cov.insert("notes".into(), json!(notes));
    }
    for (k, v) in prop.coverage_extra(st) {
        cov.insert(k, v);
    }
    let v = json!({
        "property_id": prop.id(),
        "tier": ctx.tier.name(),
        "seed": ctx.seed,
        "level": prop.level(),
        "coverage": Value::Object(cov),
        "assumptions": prop.assumptions(),
        "wall_s": wall,
        "violations": violations,
    });
    let path = dir.join(format!("{}.json", prop.id()));
    let _ = std::fs::write(&path, serde_json::to_string_pretty(&v).unwrap());
}

/// Returns the process exit code.
pub fn drive(prop: &dyn Prop, ctx: &Ctx, replay: Option<&Path>, cases_override: Option<u64>) -> i32 {
    let t0 = Instant::now();
    load_findings(&ctx.root);
    install_quiet_panic_hook();

    if let Some(path) = replay {
        if let Some(name) = std::fs::read_to_string(path).ok().and_then(|t| serde_json::from_str::<Value>(&t).ok()).and_then(|v| v["fixed_case"].as_str().map(|x| x.to_string())) {
            let Some(fc) = prop.fixed_cases().into_iter().find(|f| f.name == name) else {
                eprintln!("unknown fixed case {name}");
                return 2;
            };
            let mut st = Stats { frozen: true, ..Stats::default() };
            let r = match guard(|| (fc.run)(&mut st)) {
                Ok(r) => r,
                Err(p) => Err(Failure::new(format!("panic: {p}"))),
            };
            let open = fc.finding.is_some_and(finding_open);
            return match r {
                Ok(()) => {
                    println!("replay passed: property={} fixed case {}", prop.id(), name);
                    0
                }
                Err(f) => {
                    println!("{}", f.msg);
                    if open {
                        println!("KNOWN-FINDING: property={} {} (fixed case {})", prop.id(), fc.finding.unwrap(), name);
                        0
                    } else {
                        println!("VIOLATION property={} replay={}", prop.id(), path.display());
                        1
                    }
                }
            };
        }
        let tape = match read_tape(path) {
            Ok(t) => t,
            Err(e) => {
                eprintln!("cannot read replay: {e}");
                return 2;
            }
        };
        let mut st = Stats { frozen: true, ..Stats::default() };
        println!("case: {}", serde_json::to_string_pretty(&prop.describe(&tape)).unwrap());
        return match run_guarded(prop, &tape, &mut st) {
            Ok(()) => {
                println!("replay passed: property={} {}", prop.id(), path.display());
                0
            }
            Err(f) => {
                println!("{}", f.msg);
                if let Some(k) = f.known {
                    println!("KNOWN-FINDING: property={} {} (replay {})", prop.id(), k, path.display());
                    0
                } else {
                    println!("VIOLATION property={} replay={}", prop.id(), path.display());
                    1
                }
            }
        };
    }

    let mut total = Stats::default();
    let mut notes: Vec<String> = vec![];
    let mut violation: Option<(PathBuf, String)> = None;

    // 1. regression tier: explicit cases that bypass the generator
    // LOLV_SKIP_FIXED=1 (sensitivity experiments only): leave out the hand-written regression
    // cases so that only the generated search can detect a change
    let skip_fixed = std::env::var("LOLV_SKIP_FIXED").is_ok();
    let findings = findings_for(prop.id());
    let fixed: Vec<FixedCase> = prop.fixed_cases().into_iter().filter(|fc| !skip_fixed || fc.finding.is_some_and(|id| findings.iter().any(|f| f.id == id && f.status == "open"))).collect();
    let mut regress_run = 0;
    for fc in &fixed {
        regress_run += 1;
        let mut st = Stats::default();
        st.cases += 1;
        let r = match guard(|| (fc.run)(&mut st)) {
            Ok(r) => r,
            Err(p) => Err(Failure::new(format!("panic in fixed case {}: {p}", fc.name))),
        };
        total.merge(st);
        let path = ctx.root.join("replays").join("regress").join(prop.id()).join(format!("{}.json", fc.name));
        let status = fc.finding.and_then(|id| findings.iter().find(|f| f.id == id).map(|f| f.status.clone()));
        match (status.as_deref(), r) {
            (Some("open"), Err(f)) => {
                let kf = findings.iter().find(|k| Some(k.id.as_str()) == fc.finding).unwrap();
                if f.known.as_deref() == fc.finding || f.known.is_none() {
                    println!("KNOWN-FINDING: property={} {}: {}", prop.id(), kf.id, kf.what);
                    *total.known_hits.entry(kf.id.clone()).or_default() += 1;
                }
            }
            (Some("open"), Ok(())) => notes.push(format!("known finding {} no longer reproduces with fixed case {}", fc.finding.unwrap_or(""), fc.name)),
            (_, Err(f)) => {
                if violation.is_none() {
                    println!("regression case {} failed ({}):\n{}", fc.name, fc.what, f.msg);
                    ensure_fixed_case_file(&path, prop.id(), fc);
                    violation = Some((path.clone(), f.msg));
                }
            }
            (_, Ok(())) => {}
        }
    }
    notes.push(format!("fixed regression / known-finding cases run: {regress_run}"));

    // 3. generation
    if violation.is_none() {
        let plan = prop.plan(ctx.tier);
        let cases = cases_override.unwrap_or(plan.cases);
        let shards = ctx.threads.max(1) as u64;
        let per = cases.div_ceil(shards);
        let outs: Vec<ShardOut> = std::thread::scope(|s| {
            let hs: Vec<_> = (0..shards)
                .map(|i| {
                    let seed = mix(ctx.seed, i, 0x5eed);
                    let tl = plan.tape_len;
                    std::thread::Builder::new()
                        .stack_size(64 << 20)
                        .spawn_scoped(s, move || run_shard(prop, per, tl, seed))
                        .unwrap()
                })
                .collect();
            hs.into_iter().map(|h| h.join().expect("shard thread")).collect()
        });
        let mut best: Option<(Vec<u16>, String)> = None;
        for o in outs {
            total.merge(o.stats);
            if let Some((tape, msg)) = o.failure {
                let better = match &best {
                    None => true,
                    Some((b, _)) => (tape.len(), &tape) < (b.len(), b),
                };
                if better {
                    best = Some((tape, msg));
                }
            }
        }
        if let Some((tape, _)) = best {
            let tape = shrink_more(prop, tape);
            let mut st = Stats { frozen: true, ..Stats::default() };
            let msg = match run_guarded(prop, &tape, &mut st) {
                Err(f) => f.msg,
                Ok(()) => "failure did not reproduce after shrinking (flaky oracle?)".to_string(),
            };
            let path = write_replay(ctx, prop, &tape, &msg, "gen");
            println!("{msg}");
            println!("case: {}", serde_json::to_string(&guard(|| prop.describe(&tape)).unwrap_or(json!(null))).unwrap());
            violation = Some((path, msg));
        }
    }

    // 4. deterministic extras
    if violation.is_none() {
        let mut st = Stats::default();
        let r = match catch_unwind(AssertUnwindSafe(|| prop.extra(ctx, &mut st))) {
            Ok(r) => r,
            Err(_) => Err((Failure::new(format!("panic in extra(): {}", take_last_panic())), json!(null))),
        };
        total.merge(st);
        if let Err((f, case)) = r {
            if let Some(k) = f.known {
                *total.known_hits.entry(k).or_default() += 1;
            } else {
                let dir = ctx.root.join("replays").join("found");
                let _ = std::fs::create_dir_all(&dir);
                let path = dir.join(format!("{}-extra.json", prop.id()));
                let v = json!({"property": prop.id(), "message": f.msg, "tape": [], "extra_case": case});
                let _ = std::fs::write(&path, serde_json::to_string_pretty(&v).unwrap());
                println!("{}", f.msg);
                violation = Some((path, f.msg));
            }
        }
    }

    let wall = t0.elapsed().as_secs_f64();
    write_evidence(ctx, prop, &total, wall, violation.is_some() as u64, notes);
    println!(
        "{} tier={} seed={} cases={} evaluations={} distinct_nontrivial={} known_hits={:?} wall={:.1}s",
        prop.id(),
        ctx.tier.name(),
        ctx.seed,
        total.cases,
        total.evals,
        total.nontrivial.len(),
        total.known_hits,
        wall
    );
    let bugs = HARNESS_BUGS.lock().unwrap().clone();
    match violation {
        Some((path, _)) => {
            println!("VIOLATION property={} replay={}", prop.id(), path.display());
            1
        }
        None if !bugs.is_empty() => {
            println!("HARNESS ERROR (inconclusive, not a violation): the harness itself panicked: {bugs:?}");
            2
        }
        None => 0,
    }
}

/// helper for proptest-free use of the tape strategy type (keeps the import used)
#[allow(dead_code)]
fn _unused<S: Strategy>(s: S, r: &mut TestRunner) -> Option<S::Value> {
    s.new_tree(r).ok().map(|t| t.current())
}
