//! C07 Rewrite operations produce exactly the documented edit of the token stream.
use crate::engine::*;
use crate::gens::doc::{Doc, DocOpts, TK, doc};
use crate::gens::handlers::{ATTR_NAMES, STRS, TAG_NAMES};
use crate::gens::input::pick_encoding;
use crate::gens::sched::sched_spec;
use crate::model::edit::*;
use crate::model::tree::{Tree, induce};
use crate::obs::*;
use crate::tape::{Tape, fnv, frac_to_pos};
use crate::{ensure, fail};
use serde_json::{Value, json};

pub struct C07;

/// op template drawn before the document is known
#[derive(Clone, Debug)]
pub struct ElScript {
    pub target: u16,
    pub a: Vec<Op>,
    pub b: Option<Op>,
    pub c: Vec<Op>,
    /// where the combined sequence is split between handler s0 and s1
    pub split: u16,
}

#[derive(Clone, Debug)]
pub struct Case {
    pub d: Doc,
    pub cuts: Vec<usize>,
    pub el: Vec<ElScript>,
    /// (target fraction, ops) for comments and text nodes; doctype removal; doc-end appends
    pub comments: Vec<(u16, Vec<Op>)>,
    pub texts: Vec<(u16, Vec<Op>, bool)>,
    pub remove_doctype: bool,
    pub doc_end: Vec<Op>,
}

fn s(t: &mut Tape<'_>, ascii: bool) -> String {
    loop {
        let x = t.pick(STRS).to_string();
        if !ascii || x.is_ascii() {
            return x;
        }
    }
}

fn ct(t: &mut Tape<'_>) -> CT {
    if t.chance(1, 2) { CT::Text } else { CT::Html }
}

fn content_op(t: &mut Tape<'_>, ascii: bool) -> Op {
    match t.below(16) {
        11 => Op::StartBefore(s(t, ascii), ct(t)),
        12 => Op::StartAfter(s(t, ascii), ct(t)),
        13 => Op::StreamPrepend(vec![s(t, ascii), s(t, ascii)], ct(t)),
        14 => Op::StreamAppend(vec![s(t, ascii)], ct(t)),
        15 => Op::StreamSetInner(vec![s(t, ascii), s(t, ascii), s(t, ascii)], ct(t)),
        0 | 1 => Op::Before(s(t, ascii), ct(t)),
        2 | 3 => Op::After(s(t, ascii), ct(t)),
        4 => Op::Prepend(s(t, ascii), ct(t)),
        5 => Op::Append(s(t, ascii), ct(t)),
        6 => Op::SetInner(s(t, ascii), ct(t)),
        7 => Op::SetAttr(t.pick(ATTR_NAMES).to_string(), s(t, true)),
        8 => Op::RemoveAttr(t.pick(ATTR_NAMES).to_string()),
        9 => Op::SetTagName(t.pick(TAG_NAMES).to_string()),
        _ => Op::StreamBefore(vec![s(t, ascii), s(t, ascii)], ct(t)),
    }
}

fn tok_op(t: &mut Tape<'_>, ascii: bool) -> Op {
    match t.below(5) {
        0 => Op::Before(s(t, ascii), ct(t)),
        1 => Op::After(s(t, ascii), ct(t)),
        2 => Op::Replace(s(t, ascii), ct(t)),
        3 => Op::Remove,
        _ => Op::StreamAfter(vec![s(t, ascii), s(t, ascii)], ct(t)),
    }
}

pub fn decode(tape: &[u16]) -> Case {
    let mut t = Tape::new(tape);
    let enc = pick_encoding(&mut t, true);
    let ascii = enc != encoding_rs::UTF_8;
    let n_el = t.range(1, 4);
    let mut el = vec![];
    for _ in 0..n_el {
        let target = t.frac();
        let na = t.range(0, 3);
        let a: Vec<Op> = (0..na).map(|_| content_op(&mut t, ascii)).collect();
        let b = match t.below(6) {
            0 => Some(Op::Replace(s(&mut t, ascii), ct(&mut t))),
            1 => Some(Op::Remove),
            2 => Some(Op::RemoveKeep),
            _ => None,
        };
        let nc = t.range(0, 2);
        let mut c: Vec<Op> = (0..nc).map(|_| if t.chance(1, 2) { Op::Before(s(&mut t, ascii), ct(&mut t)) } else { Op::After(s(&mut t, ascii), ct(&mut t)) }).collect();
        if t.chance(1, 4) {
            let k = t.range(1, 2);
            let mut eops: Vec<Op> = (0..k).map(|_| tok_op(&mut t, ascii)).collect();
            if t.chance(1, 4) {
                eops.push(Op::SetTagName(t.pick(&["x", "SPAN", "q-r"]).to_string()));
            }
            c.push(Op::OnEndTag(eops));
        }
        el.push(ElScript { target, a, b, c, split: t.frac() });
    }
    let ncm = t.range(0, 2);
    let comments = (0..ncm)
        .map(|_| {
            let f = t.frac();
            let k = t.range(1, 3);
            let mut ops: Vec<Op> = (0..k).map(|_| tok_op(&mut t, ascii)).collect();
            if t.chance(1, 3) {
                ops.push(Op::SetText(t.pick(&["new", "", "a-b", "a--b", "-->", "x--!>y", "ok "]).to_string()));
            }
            (f, ops)
        })
        .collect();
    let ntx = t.range(0, 2);
    let texts = (0..ntx)
        .map(|_| {
            let f = t.frac();
            if t.chance(1, 3) {
                (f, vec![Op::Remove], true)
            } else {
                let k = t.range(1, 2);
                (f, (0..k).map(|_| tok_op(&mut t, ascii)).collect(), false)
            }
        })
        .collect();
    let remove_doctype = t.chance(1, 3);
    let nde = t.range(0, 2);
    let doc_end = (0..nde).map(|_| Op::Append(s(&mut t, ascii), ct(&mut t))).collect();
    let spec = sched_spec(&mut t);
    let d = doc(&mut t, &DocOpts { max_items: 12, enc, ..DocOpts::default() });
    let cuts = spec.resolve(d.bytes.len());
    Case { d, cuts, el, comments, texts, remove_doctype, doc_end }
}

fn needs_end(op: &Op) -> bool {
    !matches!(op, Op::Before(..) | Op::StreamBefore(..) | Op::Prepend(..) | Op::StreamPrepend(..) | Op::StartBefore(..) | Op::StartAfter(..) | Op::SetAttr(..) | Op::RemoveAttr(..))
}

/// Resolve the templates against the document: returns (Cfg, expected edits), dropping calls
/// whose outcome the documentation does not define for that element.
pub fn resolve(c: &Case, tree: &Tree, st: &mut Stats) -> (Cfg, Edits) {
    let d = &c.d;
    let mut cfg = Cfg { encoding: d.enc, ..Cfg::default() };
    cfg.sels.push(SelSpec { sel: "*".into(), ..Default::default() });
    cfg.sels.push(SelSpec { sel: "*".into(), ..Default::default() });
    cfg.docs.push(DocSpec::default());
    let mut ed = Edits::new(d, tree);
    let ne = tree.elems.len();
    let mut used: Vec<usize> = vec![];
    for sc in &c.el {
        if ne == 0 {
            break;
        }
        let e = frac_to_pos(sc.target, ne - 1);
        if used.contains(&e) {
            continue;
        }
        used.push(e);
        let el = &tree.elems[e];
        let full = el.own_end || !el.can_have_content;
        let mut seq: Vec<Op> = vec![];
        for op in sc.a.iter().chain(sc.b.iter()).chain(sc.c.iter()) {
            if !full && needs_end(op) {
                st.excluded("end-dependent operation on an element without its own end tag (outcome not defined by the docs)");
                continue;
            }
            seq.push(op.clone());
        }
        let split = frac_to_pos(sc.split, seq.len());
        let orig: Vec<(String, String)> = el.attrs.iter().map(|a| (a.name_pc.clone(), a.value.clone())).collect();
        for (k, op) in seq.iter().enumerate() {
            let h = if k < split { 0 } else { 1 };
            cfg.sels[h].ops.push(ScriptOp { kind: Kind::Element, nth: Some(e), every_chunk: false, op: op.clone() });
            apply_element_op(&mut ed.elems[e], op, el.can_have_content, &orig, d.enc);
        }
    }
    let comment_toks: Vec<usize> = d.toks.iter().enumerate().filter(|(_, t)| t.kind == TK::Comment).map(|(i, _)| i).collect();
    let mut used_c = vec![];
    for (f, ops) in &c.comments {
        if comment_toks.is_empty() {
            break;
        }
        let k = frac_to_pos(*f, comment_toks.len() - 1);
        if used_c.contains(&k) {
            continue;
        }
        used_c.push(k);
        let ti = comment_toks[k];
        for op in ops {
            cfg.docs[0].ops.push(ScriptOp { kind: Kind::Comment, nth: Some(k), every_chunk: false, op: op.clone() });
            match op {
                Op::SetText(s) => {
                    let ok = !(s.contains("-->") || s.contains("--!>") || s.starts_with('>') || s.starts_with("->")) && !d.enc.encode(s).2;
                    // the precise rejection rule is C08's subject; here only unambiguous texts are used
                    if ok && !s.contains("--") && !s.ends_with('-') {
                        ed.comment_text[ti] = Some(s.clone());
                    } else if !ok {
                        // rejected: unchanged
                    } else {
                        // accepted or rejected depending on the exact rule: drop the call from the script
                        cfg.docs[0].ops.pop();
                        st.excluded("comment text whose acceptance depends on the exact closing-sequence rule (C08)");
                    }
                }
                o => ed.toks[ti].apply(o),
            }
        }
    }
    let text_toks: Vec<usize> = d.toks.iter().enumerate().filter(|(_, t)| t.kind == TK::Text).map(|(i, _)| i).collect();
    let mut used_t = vec![];
    for (f, ops, all) in &c.texts {
        if text_toks.is_empty() {
            break;
        }
        let k = frac_to_pos(*f, text_toks.len() - 1);
        if used_t.contains(&k) {
            continue;
        }
        used_t.push(k);
        let ti = text_toks[k];
        for op in ops {
            cfg.docs[0].ops.push(ScriptOp { kind: Kind::Text, nth: Some(k), every_chunk: *all, op: op.clone() });
            if *all {
                ed.text_removed[ti] = true;
                ed.toks[ti].removed = true;
            } else {
                ed.toks[ti].apply(op);
            }
        }
    }
    if c.remove_doctype {
        cfg.docs[0].ops.push(ScriptOp { kind: Kind::Doctype, nth: None, every_chunk: false, op: Op::Remove });
        for (i, t) in d.toks.iter().enumerate() {
            if t.kind == TK::Doctype {
                ed.toks[i].removed = true;
            }
        }
    }
    for op in &c.doc_end {
        if let Op::Append(s, ct) = op {
            cfg.docs[0].ops.push(ScriptOp { kind: Kind::DocEnd, nth: None, every_chunk: false, op: op.clone() });
            ed.doc_end.push(Chunk(s.clone(), *ct));
        }
    }
    (cfg, ed)
}

pub fn check_case(c: &Case, st: &mut Stats) -> PResult {
    let tree = induce(&c.d, false);
    let (cfg, ed) = resolve(c, &tree, st);
    let r = run(&split(&c.d.bytes, &c.cuts), &cfg);
    st.eval();
    if let Some(p) = r.panicked() {
        fail!("C07: panic: {p}");
    }
    ensure!(r.result.is_ok(), "C07: unexpected error {:?}", r.result);
    let segs = render(&c.d, &tree, &ed);
    if let Err(e) = compare(&r.out, &segs, c.d.enc) {
        fail!("C07: output is not the documented edit of the input: {e}\n  doc={:?}\n  scripts: s0={:?}\n           s1={:?}\n           d0={:?}\n  cuts={:?}\n  output={:?}", show(&c.d.bytes), cfg.sels[0].ops, cfg.sels[1].ops, cfg.docs[0].ops, c.cuts, show(&r.out));
    }
    let n_ops: usize = cfg.sels.iter().map(|s| s.ops.len()).sum::<usize>() + cfg.docs[0].ops.len();
    let multi_on_one = ed.elems.iter().any(|m| m.s.before.len() + m.s.after.len() + m.e.before.len() + m.e.after.len() >= 2) || (!cfg.sels[0].ops.is_empty() && !cfg.sels[1].ops.is_empty());
    let nested_in_removed = tree.elems.iter().enumerate().any(|(i, e)| {
        let touched = cfg.sels.iter().any(|s| s.ops.iter().any(|o| o.nth == Some(i)));
        let mut p = e.parent;
        let mut inside = false;
        while let Some(pp) = p {
            inside |= ed.elems[pp].remove_content;
            p = tree.elems[pp].parent;
        }
        touched && inside
    });
    let cut_in_tag = c.cuts.iter().any(|x| c.d.toks.iter().any(|t| t.start < *x && *x < t.end && t.kind != TK::Text));
    st.label_if(n_ops > 0, "has_operations");
    st.label_if(multi_on_one, "several_operations_on_one_token");
    st.label_if(nested_in_removed, "mutated_element_inside_removed_content");
    st.label_if(cut_in_tag, "cut_inside_token");
    st.label_if(ed.elems.iter().any(|m| m.touched_tag), "attribute_or_name_edit");
    st.label_if(c.d.enc != encoding_rs::UTF_8, "non_utf8");
    if n_ops > 0 && (multi_on_one || nested_in_removed || cut_in_tag) {
        let mut key = c.d.bytes.clone();
        key.extend(format!("{:?}", cfg.to_json()).as_bytes());
        if st.nontrivial(fnv(&key)) {
            st.sample(|| json!({"doc": show(&c.d.bytes), "encoding": c.d.enc.name(), "s0": format!("{:?}", cfg.sels[0].ops), "s1": format!("{:?}", cfg.sels[1].ops), "d0": format!("{:?}", cfg.docs[0].ops), "cuts": c.cuts}));
        }
    }
    Ok(())
}

impl Prop for C07 {
    fn id(&self) -> &'static str {
        "C07"
    }
    fn fixed_cases(&self) -> Vec<FixedCase> {
        use crate::gens::doc::{Ns, build};
        vec![FixedCase {
            name: "valueless-attr-before-equals-name",
            finding: Some("C07-reserialized-attr-glued"),
            what: "<div class/=x id> with set_attribute(id): the untouched attributes `class` and `=x` keep their names and values",
            run: Box::new(|st| {
                let d = build(&[(TK::Start, "<div class/=x id id>", "div", Ns::Html, ""), (TK::End, "</div>", "div", Ns::Html, "")]);
                let c = Case { d, cuts: vec![], el: vec![ElScript { target: 0, a: vec![Op::SetAttr("id".into(), "X".into())], b: None, c: vec![], split: 0 }], comments: vec![], texts: vec![], remove_doctype: false, doc_end: vec![] };
                check_case(&c, st)
            }),
        }]
    }
    fn rule(&self) -> String {
        "case = (structured document in one of 36 encodings, schedule, operation script: 1-4 elements each with {before,after,prepend,append,set_inner_content,set_attribute,remove_attribute,set_tag_name,streaming_before}* then at most one of {replace,remove,remove_and_keep_content} then before/after and optional end-tag handler edits, split between two '*' handlers; comment edits incl. set_text; text-node edits on the final chunk or removal of all chunks; doctype removal; document-end appends); oracle: sink == R-edit(generator layout, script): per token before* + (self|replacement|nothing) + after* with the documented accumulation order, element operations mapped to start/end tag, content of removed/replaced elements dropped with all edits inside, no-ops on void elements, Text escaped / Html verbatim and transcoded; byte-exact except inside a modified start/end tag, which is re-tokenised (R-attr) and compared by name, attribute order, raw values and (foreign content) self-closing flag. non-trivial = >=1 operation and (>=2 land on one token, or a mutated element inside removed content, or a cut inside a token)".into()
    }
    fn assumptions(&self) -> Vec<String> {
        vec![
            "end-dependent operations are only asserted for elements closed by their own end tag (docs: end-tag handlers may not run without an explicit end tag); such calls are dropped from the script otherwise and counted under excluded_by_construction".into(),
            "the '/>' of a modified HTML-namespace start tag is not compared (meaningless there; docs promise nothing)".into(),
            "comment texts whose acceptance depends on the exact closing-sequence rule are left to C08".into(),
        ]
    }
    fn plan(&self, tier: Tier) -> Plan {
        match tier {
            Tier::Quick => Plan { cases: 1_500_000, tape_len: 420 },
            Tier::Thorough => Plan { cases: 20_000_000, tape_len: 520 },
        }
    }
    fn run(&self, tape: &[u16], st: &mut Stats) -> PResult {
        check_case(&decode(tape), st)
    }
    fn describe(&self, tape: &[u16]) -> Value {
        let c = decode(tape);
        json!({"doc": show(&c.d.bytes), "encoding": c.d.enc.name(), "cuts": c.cuts, "element_scripts": format!("{:?}", c.el), "comments": format!("{:?}", c.comments), "texts": format!("{:?}", c.texts), "remove_doctype": c.remove_doctype, "doc_end": format!("{:?}", c.doc_end)})
    }
}
