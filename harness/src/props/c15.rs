//! C15 Robustness: any bytes, selectors and settings give Ok or Err, never a crash.
use crate::engine::*;
use crate::gens::doc::{DocOpts, doc};
use crate::gens::enc::ENCODINGS;
use crate::gens::handlers::{SPARSE_SELECTORS, mutators, observers};
use crate::gens::input::{InputOpts, input_in};
use crate::gens::sched::sched_spec;
use crate::gens::sel::selector_set;
use crate::model::css::render;
use crate::obs::*;
use crate::tape::{Tape, fnv};
use crate::{ensure, fail};
use lol_html::Selector;
use serde_json::{Value, json};

pub struct C15;

pub struct Case {
    pub input: Vec<u8>,
    pub cuts: Vec<usize>,
    pub cfg: Cfg,
    pub selector_strings: Vec<String>,
    pub kind: &'static str,
}

const WEIRD_SELECTORS: &[&str] = &[
    "", " ", "*", "**", ">", "div >", "> div", "div > > p", "a,", ",a", "a,,b", ":not()", ":not(", ":not(:not(:not(:not(a))))", ":nth-child(", ":nth-child(99999999999999999999n+1)", ":nth-child(-2147483648n-2147483648)", ":nth-child(2147483647n+2147483647)", ":nth-of-type(0n+0)",
    "[", "[]", "[a=]", "[a=\"]", "[a='b' z]", "[a|=b i]", "a|b", "*|*", "|a", "a:hover", "a::before", ":root", ":is(a)", ":where(a)", ":has(a)", "a + b", "a ~ b", "a:nth-child(2 of .x)", ":last-child", ":only-child", "\\", "a\\", "#", ".", "#1", ".1", "a#b.c[d][e=f]:not(g):nth-child(1)", "é", "\u{0}", "a\u{0}b", "/**/a/**/",
    "div div div div div div div div div div div div div div div div div div div div", "a>b>c>d>e>f>g>h>i>j>k>l>m>n>o>p", ":first-child:first-of-type:nth-child(1):nth-of-type(1)", "[a][a][a][a][a][a][a][a][a][a][a][a]",
];

fn mutate_bytes(t: &mut Tape<'_>, mut v: Vec<u8>) -> Vec<u8> {
    let n = t.range(1, 6);
    for _ in 0..n {
        if v.is_empty() {
            v.push(b'<');
            continue;
        }
        let i = t.below(v.len());
        match t.below(5) {
            0 => v[i] = *t.pick(b"<>/!-=\"' ][&\0"),
            1 => {
                v.remove(i);
            }
            2 => v.insert(i, *t.pick(b"<>/!-=\"' ][&\0\xff\x80")),
            3 => v[i] = t.below(256) as u8,
            _ => {
                let j = t.below(v.len());
                let (a, b) = (i.min(j), i.max(j));
                let seg: Vec<u8> = v[a..b].to_vec();
                v.splice(a..a, seg.into_iter().take(40));
            }
        }
    }
    v
}

fn pathological(t: &mut Tape<'_>, n: usize) -> (Vec<u8>, &'static str) {
    match t.below(11) {
        // any single construct repeated n times inside a context that changes how it is counted
        // or tokenised (per-construct counters, depth fields, state kept per open element)
        8..=10 => {
            let ctx = *t.pick(&["", "<select>", "<select><template>", "<table>", "<svg>", "<math>", "<frameset>", "<template>", "<svg><foreignObject>", "<math><mi>", "<select><optgroup>", "<ul><li>"]);
            let frag = if t.chance(1, 2) {
                t.pick(&["<template>", "<select>", "<option>", "<table>", "<td>", "<svg>", "<math>", "<foreignObject>", "<mi>", "<desc>", "<title>", "</title>", "<font color=a>", "<p>", "</p>", "</br>", "<br>", "<a>", "<b>", "<li>", "<dd>", "<frameset>", "<esi:include>", "<script>", "</select>", "<input>", "<textarea>", "<!-->", "<![CDATA[", "<annotation-xml encoding=text/html>"]).to_string()
            } else {
                t.pick(crate::gens::soup::HTML_FRAGS).to_string()
            };
            let mut v = ctx.as_bytes().to_vec();
            v.extend(frag.repeat(n).into_bytes());
            (v, "repeated_construct_in_context")
        }
        0 => ("<div>".repeat(n).into_bytes(), "deep_nesting"),
        1 => (format!("<{}>", "t".repeat(n * 8)).into_bytes(), "long_tag_name"),
        2 => (format!("<a {}>", (0..n).map(|i| format!("a{i}=v ")).collect::<String>()).into_bytes(), "many_attributes"),
        3 => ("</p>".repeat(n).into_bytes(), "stray_end_tags"),
        4 => ("<p class=a>x</p><q>y</q>".repeat(n / 3 + 1).into_bytes(), "alternating_matched_unmatched"),
        5 => (format!("<!--{}", "-".repeat(n * 4)).into_bytes(), "unterminated_comment_dashes"),
        6 => (format!("<script><!--<script>{}", "</script ".repeat(n)).into_bytes(), "double_escaped_script"),
        _ => (format!("<svg>{}", "<![CDATA[]]]]>".repeat(n)).into_bytes(), "cdata_runs"),
    }
}

pub fn decode(tape: &[u16]) -> Case {
    let mut t = Tape::new(tape);
    let enc = ENCODINGS[t.below(ENCODINGS.len())];
    let mut cfg = Cfg { encoding: enc, ..Cfg::default() };
    cfg.strict = t.chance(1, 2);
    cfg.esi = t.chance(1, 3);
    cfg.adjust_charset = t.chance(1, 3);
    cfg.graceful_handler = t.chance(1, 3);
    cfg.graceful_mem = t.chance(1, 3);
    cfg.prealloc = *t.pick(&[0usize, 0, 1, 7, 64, 1024]);
    cfg.max_mem = match t.below(4) {
        0 => cfg.prealloc + t.below(64),
        1 => cfg.prealloc + t.below(3000),
        _ => usize::MAX,
    };
    // selector strings: grammar + mutations + weird
    let mut selector_strings: Vec<String> = vec![];
    let ns = t.range(0, 4);
    for _ in 0..ns {
        let s = match t.below(4) {
            0 => t.pick(WEIRD_SELECTORS).to_string(),
            1 => t.pick(SPARSE_SELECTORS).to_string(),
            2 => {
                let set = selector_set(&mut t, 1, true);
                render(&set[0])
            }
            _ => {
                let set = selector_set(&mut t, 1, true);
                let b = mutate_bytes(&mut t, render(&set[0]).into_bytes());
                String::from_utf8_lossy(&b).to_string()
            }
        };
        selector_strings.push(s);
    }
    match t.below(3) {
        0 => {}
        1 => observers(&mut t, &mut cfg, 2, 2),
        _ => {
            observers(&mut t, &mut cfg, 1, 1);
            mutators(&mut t, &mut cfg);
        }
    }
    let nb = t.range(0, 2);
    for k in 0..nb {
        cfg.bail_outs.push(Some(format!("<!--b{k}-->")));
    }
    let spec = sched_spec(&mut t);
    let (input, kind): (Vec<u8>, &'static str) = match t.below(6) {
        0 => (crate::gens::soup::bytes(&mut t, 200), "random_bytes"),
        1 | 2 => (input_in(&mut t, &InputOpts { max_frags: 24, ..Default::default() }, enc), "soup"),
        3 => {
            let d = doc(&mut t, &DocOpts::default());
            (mutate_bytes(&mut t, d.bytes), "mutated_document")
        }
        4 => {
            let d = doc(&mut t, &DocOpts { max_items: 30, ..DocOpts::default() });
            (d.bytes, "document")
        }
        _ => {
            let n = *t.pick(&[50usize, 300, 2000]);
            pathological(&mut t, n)
        }
    };
    let cuts = spec.resolve(input.len());
    Case { input, cuts, cfg, selector_strings, kind }
}

fn scripted_failures(cfg: &Cfg) -> bool {
    fn has_fail(ops: &[ScriptOp]) -> bool {
        ops.iter().any(|o| matches!(&o.op, Op::Fail) || matches!(&o.op, Op::OnEndTag(v) if v.contains(&Op::Fail)))
    }
    cfg.fail_at.is_some() || cfg.sels.iter().any(|s| has_fail(&s.ops)) || cfg.docs.iter().any(|d| has_fail(&d.ops))
}

pub fn check_case(c: &Case, st: &mut Stats) -> PResult {
    // 1. selector parsing returns a Selector or a SelectorError
    let mut cfg = c.cfg.clone();
    for s in &c.selector_strings {
        st.eval();
        match guard(|| s.parse::<Selector>()) {
            Err(p) => fail!("C15: selector parsing panicked on {s:?}: {p}"),
            Ok(Ok(_)) => {
                cfg.sels.push(SelSpec { sel: s.clone(), el: true, end_tag: true, text: cfg.sels.len() % 2 == 0, comments: false, ops: vec![] });
                st.label("selector_accepted");
            }
            Ok(Err(_)) => st.label("selector_rejected"),
        }
    }
    // 2. the rewrite terminates with Ok or a RewritingError
    let r = run_ext(&split(&c.input, &c.cuts), &cfg, true);
    st.eval();
    if let Some(p) = r.panicked() {
        fail!("C15: panic: {p}\n  kind={} input={:?} cuts={:?}\n  cfg={}", c.kind, show(&c.input[..c.input.len().min(300)]), &c.cuts[..c.cuts.len().min(10)], cfg.to_json());
    }
    match &r.result {
        Ok(()) => {}
        Err(ErrKind::Mem) => ensure!(cfg.max_mem != usize::MAX, "C15: MemoryLimitExceeded without a memory limit"),
        Err(ErrKind::Ambiguity(_)) => ensure!(cfg.strict, "C15: ParsingAmbiguity in non-strict mode"),
        Err(ErrKind::Handler(m)) => {
            if !scripted_failures(&cfg) {
                fail!("C15: ContentHandlerError({m:?}) although no user handler failed: an internal assertion surfaced as an error\n  kind={} input={:?} cuts={:?}\n  cfg={}", c.kind, show(&c.input[..c.input.len().min(300)]), &c.cuts[..c.cuts.len().min(10)], cfg.to_json());
            }
        }
        Err(ErrKind::Panic(_)) => unreachable!(),
    }
    st.label(c.kind);
    st.label(&format!("result_{}", r.kind()));
    let reached = r.invocations > 0 || crate::gens::soup::has_markup(&c.input);
    if reached {
        let mut key = c.input.clone();
        key.extend(format!("{:?}{:?}", c.cuts, cfg.to_json()).as_bytes());
        if st.nontrivial(fnv(&key)) {
            st.sample(|| json!({"kind": c.kind, "input": show(&c.input[..c.input.len().min(200)]), "cuts": c.cuts.len(), "selectors": c.selector_strings, "cfg": cfg.to_json(), "result": r.kind()}));
        }
    }
    Ok(())
}

/// large pathological families, run in a child process so that stack exhaustion or an abort is
/// observed as a failure of this property instead of killing the check
pub const BIG: &[(&str, usize)] = &[
    ("deep_nesting_100k_with_selectors", 100_000),
    ("deep_nesting_100k_no_handlers", 100_000),
    ("one_megabyte_tag_name", 1_000_000),
    ("one_megabyte_attribute_value_captured", 1_000_000),
    ("ten_thousand_attributes", 10_000),
    ("hundred_thousand_stray_end_tags", 100_000),
    ("two_thousand_selectors", 2_000),
    ("deeply_nested_not_selector", 5_000),
    ("deep_foreign_nesting_100k", 100_000),
    ("select_template_nesting_strict_70k", 70_000),
    ("one_megabyte_comment_bytewise_limit", 200_000),
];

pub fn run_big(name: &str, n: usize) -> Result<String, String> {
    let mut cfg = Cfg::default();
    let mut block = 4096usize;
    let input: Vec<u8> = match name {
        "deep_nesting_100k_with_selectors" => {
            cfg.sels.push(SelSpec { sel: "div div > div:nth-child(1)".into(), el: true, end_tag: true, text: true, ..Default::default() });
            cfg.sels.push(SelSpec { sel: "*".into(), el: true, ..Default::default() });
            let mut v = "<div>".repeat(n).into_bytes();
            v.extend("</div>".repeat(n).into_bytes());
            v
        }
        "deep_nesting_100k_no_handlers" => "<div><span>".repeat(n).into_bytes(),
        "one_megabyte_tag_name" => format!("<{}>x", "t".repeat(n)).into_bytes(),
        "one_megabyte_attribute_value_captured" => {
            cfg.sels.push(SelSpec { sel: "[a*=zz]".into(), el: true, ..Default::default() });
            format!("<p a=\"{}\">x</p>", "v".repeat(n)).into_bytes()
        }
        "ten_thousand_attributes" => {
            cfg.sels.push(SelSpec { sel: "[a9999]".into(), el: true, ..Default::default() });
            format!("<a {}>", (0..n).map(|i| format!("a{i}=v ")).collect::<String>()).into_bytes()
        }
        "hundred_thousand_stray_end_tags" => {
            cfg.sels.push(SelSpec { sel: "p".into(), el: true, end_tag: true, ..Default::default() });
            format!("<p>{}", "</q></p><p>".repeat(n / 2)).into_bytes()
        }
        "two_thousand_selectors" => {
            for i in 0..n {
                cfg.sels.push(SelSpec { sel: format!("div.c{} > span[a{}]", i % 50, i), el: true, ..Default::default() });
            }
            "<div class=\"c1 c2 c3\"><span a1 a2 a51></span></div>".repeat(200).into_bytes()
        }
        "deeply_nested_not_selector" => {
            // the nesting on its own, and after constructs a depth pre-scan has to read the way
            // the real parser does: strings with escaped quotes / parentheses / backslashes,
            // escaped characters outside strings, comments
            let mut outcomes = vec![];
            for prefix in ["", "[a=\"\\\"\"]", "[a='\\'']", "[a=\"(\"]", "[a=\"\\\\\"]", "[a=\")\"]", "a\\(", "[a=\"\\\"(\"]", "/*\"*/", "[a=\"'\"]", "[a='\"']", "a\\\"", "[a=\"\\\n\"]"] {
                let sel = format!("{prefix}{}a{}", ":not(".repeat(n), ")".repeat(n));
                match guard(|| sel.parse::<Selector>().map(|_| ())) {
                    Err(p) => return Err(format!("panic parsing a {n}-deep :not() after {prefix:?}: {p}")),
                    Ok(r) => outcomes.push(r.is_ok()),
                }
            }
            return Ok(format!("parse results ok={outcomes:?}"));
        }
        "select_template_nesting_strict_70k" => {
            cfg.strict = true;
            format!("<select>{}", "<template>".repeat(n)).into_bytes()
        }
        "deep_foreign_nesting_100k" => {
            cfg.docs.push(DocSpec { text: true, comments: true, ..Default::default() });
            "<svg><foreignObject>".repeat(n).into_bytes()
        }
        "one_megabyte_comment_bytewise_limit" => {
            cfg.docs.push(DocSpec { comments: true, ..Default::default() });
            cfg.max_mem = 50_000;
            cfg.graceful_mem = true;
            block = 997;
            format!("<!--{}-->", "c".repeat(n)).into_bytes()
        }
        _ => return Err(format!("unknown family {name}")),
    };
    let cuts: Vec<usize> = (1..input.len()).filter(|i| i % block == 0).collect();
    let r = run(&split(&input, &cuts), &cfg);
    if let Some(p) = r.panicked() {
        return Err(format!("panic: {p}"));
    }
    match &r.result {
        Err(ErrKind::Handler(m)) => Err(format!("internal error surfaced as ContentHandlerError({m:?})")),
        other => Ok(format!("result={:?} out_len={} events={}", other.as_ref().map_err(|e| e.short()), r.out.len(), r.events.len())),
    }
}

impl Prop for C15 {
    fn id(&self) -> &'static str {
        "C15"
    }
    fn fixed_cases(&self) -> Vec<FixedCase> {
        vec![FixedCase {
            name: "selector-pseudo-element-in-not",
            finding: Some("C15-selector-invalid-state-assert"),
            what: "parsing 'a:not(::x)' returns a SelectorError instead of tripping a debug assertion",
            run: Box::new(|st| {
                let c = Case { input: b"<a>".to_vec(), cuts: vec![], cfg: Cfg::default(), selector_strings: vec!["a:not(::x)".into(), "div:not(::not(a))".into()], kind: "soup" };
                check_case(&c, st)
            }),
        }]
    }
    fn rule(&self) -> String {
        "case = (input: random bytes | soup in one of 36 encodings | structured document | byte-mutated document | pathological family at n in {50,300,2000}; settings: encoding, strict, esi, adjust_charset, memory settings within the documented precondition, graceful flags, bail-out handlers; 0-4 selector STRINGS from the grammar, byte-mutated or a list of malformed/unsupported ones; observer or mutating handlers with invalid names/values; schedule); oracle: selector parsing returns Ok/Err, every write/end returns Ok or a RewritingError of a kind the configuration allows, no panic (debug assertions and overflow checks ON), no ContentHandlerError when no user handler failed (internal assertion), a rewriter used after an error panics without touching the sink; plus 10 large pathological families (1e5-deep nesting, 1e6-byte tokens, 1e4 attributes, 2000 selectors, 5000-deep :not) each run in a child process so stack exhaustion/abort is observed. non-trivial = the case reached a handler callback or contains markup; distinct by hash(input,cuts,cfg)".into()
    }
    fn assumptions(&self) -> Vec<String> {
        vec!["termination: a hang is reported by the check script's watchdog as inconclusive (exit 2), never as a violation".into(), "work proportional to input is decided by the deterministic instruction-count ratio (valgrind cachegrind, no wall clock) of 9 pathological families at n and 4n with fixed 4 KiB writes; ratio >= 8 is a violation (linear = 4, quadratic = 16); if valgrind is unavailable the probe is recorded as inconclusive".into()]
    }
    fn plan(&self, tier: Tier) -> Plan {
        match tier {
            Tier::Quick => Plan { cases: 1_500_000, tape_len: 300 },
            Tier::Thorough => Plan { cases: 60_000_000, tape_len: 420 },
        }
    }
    fn run(&self, tape: &[u16], st: &mut Stats) -> PResult {
        check_case(&decode(tape), st)
    }
    fn describe(&self, tape: &[u16]) -> Value {
        let c = decode(tape);
        json!({"kind": c.kind, "input": show(&c.input[..c.input.len().min(600)]), "input_len": c.input.len(), "cuts": c.cuts, "selectors": c.selector_strings, "cfg": c.cfg.to_json()})
    }
    fn extra(&self, ctx: &Ctx, st: &mut Stats) -> Result<(), (Failure, Value)> {
        let exe = std::env::current_exe().map_err(|e| (Failure::new(format!("current_exe: {e}")), json!(null)))?;
        for (name, n) in BIG {
            st.eval();
            let out = std::process::Command::new(&exe).args(["C15", "--big", name, &n.to_string()]).env("VERIF_ROOT", &ctx.root).output();
            let case = json!({"family": name, "n": n, "replay": format!("lolv C15 --big {name} {n}")});
            match out {
                Err(e) => return Err((Failure::new(format!("C15: cannot spawn child for {name}: {e}")), case)),
                Ok(o) => {
                    let so = String::from_utf8_lossy(&o.stdout).to_string();
                    if !o.status.success() {
                        let se = String::from_utf8_lossy(&o.stderr);
                        return Err((Failure::new(format!("C15: pathological family {name} (n={n}) did not return normally: status {:?}\n  stdout: {}\n  stderr: {}", o.status, so.trim(), se.lines().rev().take(5).collect::<Vec<_>>().join(" | "))), case));
                    }
                    st.label(&format!("big_{name}"));
                    st.nontrivial(fnv(name.as_bytes()));
                    st.extra_results.push(json!({"family": name, "n": n, "outcome": so.trim()}));
                }
            }
        }
        crate::props::c15perf::complexity(ctx, st)?;
        Ok(())
    }
}
