//! C14 Source locations: exact, absolute, chunking independent.
use crate::engine::*;
use crate::gens::doc::{Doc, DocOpts, TK, doc};
use crate::gens::handlers::mutators;
use crate::gens::input::{InputOpts, input_in};
use crate::gens::sched::sched_spec;
use crate::model::attr::parse_tag;
use crate::model::tree::{Tree, induce};
use crate::obs::*;
use crate::tape::{Tape, fnv};
use crate::{ensure, fail};
use serde_json::{Value, json};

pub struct C14;

pub enum Case {
    Doc { d: Doc, cuts: Vec<usize>, cfg: Cfg },
    Soup { input: Vec<u8>, cuts: Vec<usize>, cfg: Cfg },
}

pub fn all_observers(cfg: &mut Cfg) {
    cfg.docs.push(DocSpec { doctype: true, comments: true, text: true, end: true, ops: vec![] });
    cfg.sels.push(SelSpec { sel: "*".into(), el: true, end_tag: true, text: false, comments: false, ops: vec![] });
}

/// selector of the auditing handler (spelled unlike any generated selector)
const AUDITOR: &str = "*:not(audit-no-such-tag)";

pub fn decode(tape: &[u16]) -> Case {
    let mut t = Tape::new(tape);
    let soup = t.chance(1, 4);
    let enc = crate::gens::input::pick_encoding(&mut t, true);
    let mut cfg = Cfg { encoding: enc, ..Cfg::default() };
    all_observers(&mut cfg);
    let spec = sched_spec(&mut t);
    if soup {
        if t.chance(1, 3) {
            // a generated sparse observer set: locations after tag-scan <-> lexer mode switches
            cfg = Cfg { encoding: enc, ..Cfg::default() };
            crate::gens::handlers::observers(&mut t, &mut cfg, 3, 1);
        }
        let input = input_in(&mut t, &InputOpts::default(), enc);
        let input = crate::gens::input::maybe_long(&mut t, input, 8);
        let cuts = spec.resolve(input.len());
        return Case::Soup { input, cuts, cfg };
    }
    cfg.esi = t.chance(1, 5);
    if t.chance(1, 3) {
        // handlers that rewrite content (must not influence reported locations)
        let mut m = Cfg::default();
        mutators(&mut t, &mut m);
        // keep only non-removing element/comment/text edits on separate handlers appended after the observers
        for mut s in m.sels {
            s.ops.retain(|o| matches!(o.op, Op::Before(..) | Op::After(..) | Op::Prepend(..) | Op::Append(..) | Op::SetAttr(..) | Op::RemoveAttr(..) | Op::SetTagName(..) | Op::SetText(..) | Op::OnEndTag(..) | Op::StartBefore(..) | Op::StartAfter(..)));
            // several edits of one token (its location must survive any number of them)
            if t.chance(1, 3) {
                let extra: Vec<ScriptOp> = s.ops.iter().filter(|o| matches!(o.op, Op::SetAttr(..) | Op::SetTagName(..) | Op::SetText(..))).cloned().collect();
                s.ops.extend(extra);
            }
            if !s.ops.is_empty() {
                cfg.sels.push(s);
            }
        }
        // an auditor registered last: reads every element again after the edits of the handlers before it
        if cfg.sels.len() > 1 {
            cfg.sels.push(SelSpec { sel: AUDITOR.into(), el: true, end_tag: true, comments: true, ..Default::default() });
        }
    }
    let d = doc(&mut t, &DocOpts { enc, ..DocOpts::default() });
    let cuts = spec.resolve(d.bytes.len());
    Case::Doc { d, cuts, cfg }
}

/// Expected observer events from the generator's layout (observer handlers d0 and s0 only).
pub fn expected_events(d: &Doc, tree: &Tree) -> Vec<Ev> {
    let mut out = vec![];
    for (i, tok) in d.toks.iter().enumerate() {
        let loc = (tok.start, tok.end);
        match tok.kind {
            TK::Doctype => out.push(Ev::Doctype { h: "d0".into(), name: None, pid: None, sid: None, loc }),
            TK::Comment => out.push(Ev::Comment { h: "d0".into(), text: tok.name.clone(), loc }),
            TK::Text => out.push(Ev::Text { h: "d0".into(), text: tok.name.clone(), ttype: tok.text_type.to_string(), last: true, loc }),
            TK::Start => {
                let e = &tree.elems[tree.tok_elem[i].unwrap()];
                out.push(Ev::Element {
                    h: "s0".into(),
                    name: e.name.clone(),
                    name_pc: e.name_pc.clone(),
                    attrs: e.attrs.iter().map(|a| AttrEv { name: a.name.clone(), name_pc: a.name_pc.clone(), value: a.value.clone(), name_loc: Some(a.name_range), value_loc: Some(a.value_range) }).collect(),
                    ns: e.ns.uri().to_string(),
                    self_closing: e.self_closing,
                    can_have_content: e.can_have_content,
                    loc,
                });
            }
            TK::End => {
                for e in &tree.closes[i] {
                    let el = &tree.elems[*e];
                    let st = &d.toks[el.tok];
                    out.push(Ev::EndTag { h: "s0".into(), name: tok.name.to_ascii_lowercase(), name_pc: tok.name.clone(), loc, el_loc: (st.start, st.end) });
                }
            }
            TK::CdataMarker => {}
        }
    }
    out.push(Ev::End { h: "d0".into() });
    out
}

fn strip_doctype(e: &Ev) -> Ev {
    match e {
        Ev::Doctype { h, loc, .. } => Ev::Doctype { h: h.clone(), name: None, pid: None, sid: None, loc: *loc },
        o => o.clone(),
    }
}

fn observer_events(events: &[Ev]) -> Vec<Ev> {
    events.iter().filter(|e| e.handler() == "d0" || e.handler() == "s0").map(strip_doctype).collect()
}

pub fn check_doc(d: &Doc, cuts: &[usize], cfg: &Cfg, st: &mut Stats) -> PResult {
    let tree = induce(d, cfg.esi);
    let chunks = split(&d.bytes, cuts);
    let r = run(&chunks, cfg);
    st.eval();
    if let Some(p) = r.panicked() {
        fail!("C14: panic: {p}");
    }
    ensure!(r.result.is_ok(), "C14: unexpected error {:?}", r.result);
    let got = norm(&observer_events(&r.events)).map_err(|e| Failure::new(format!("C14: text chunk ranges: {e}")))?;
    // drop empty text nodes (e.g. zero-length chunk protocol artefacts)
    let got: Vec<Ev> = got.into_iter().filter(|e| !matches!(e, Ev::Text { text, loc, .. } if text.is_empty() && loc.0 == loc.1)).collect();
    let exp = expected_events(d, &tree);
    // a renaming handler (set_tag_name) legitimately changes the name an earlier-registered
    // observer reads in its END-tag handler; names are not this property's subject
    let renames = cfg.sels.iter().flat_map(|s| s.ops.iter()).any(|o| match &o.op { Op::SetTagName(_) => true, Op::OnEndTag(v) => v.iter().any(|x| matches!(x, Op::SetTagName(_))), _ => false });
    // likewise Comment::set_text by a selector handler is what a document-level comment handler (run later) reads
    let retexts = cfg.sels.iter().flat_map(|s| s.ops.iter()).any(|o| o.kind == Kind::Comment && matches!(o.op, Op::SetText(_)));
    let unname = |v: Vec<Ev>| -> Vec<Ev> {
        v.into_iter()
            .map(|e| match e {
                Ev::EndTag { h, loc, el_loc, .. } if renames => Ev::EndTag { h, name: String::new(), name_pc: String::new(), loc, el_loc },
                Ev::Comment { h, loc, .. } if retexts => Ev::Comment { h, text: String::new(), loc },
                o => o,
            })
            .collect()
    };
    let (got, exp) = (unname(got), unname(exp));
    if got != exp {
        let k = got.iter().zip(exp.iter()).position(|(x, y)| x != y).unwrap_or(got.len().min(exp.len()));
        fail!("C14: reported token/location differs from the generator's layout at event #{k}:\n  got      {:?}\n  expected {:?}", got.get(k), exp.get(k));
    }
    // locations read *after* earlier handlers edited the element: a location that is still
    // reported must be truthful (the bytes there are this attribute's name / current value), and
    // attributes no handler touched keep theirs ("None for attributes that were added or modified")
    if cfg.sels.last().map(|s| s.sel == AUDITOR).unwrap_or(false) {
        let audit_h = format!("s{}", cfg.sels.len() - 1);
        let set_names: Vec<String> = cfg.sels.iter().flat_map(|s| s.ops.iter()).filter_map(|o| if let Op::SetAttr(n, _) | Op::RemoveAttr(n) = &o.op { Some(n.to_ascii_lowercase()) } else { None }).collect();
        let mut audited = 0;
        for ev in r.events.iter().filter(|e| e.handler() == audit_h) {
            // token ranges read after any number of edits are still the token's bytes
            match ev {
                Ev::EndTag { loc, .. } => {
                    ensure!(d.toks.iter().any(|t| t.kind == TK::End && (t.start, t.end) == *loc), "C14: after edits, an end tag reports location {loc:?}, which is not an end tag of the input ({:?})", show(d.bytes.get(loc.0..loc.1.min(d.bytes.len())).unwrap_or(&[])));
                    continue;
                }
                Ev::Comment { loc, .. } => {
                    ensure!(d.toks.iter().any(|t| t.kind == TK::Comment && (t.start, t.end) == *loc), "C14: after edits, a comment reports location {loc:?}, which is not a comment of the input ({:?})", show(d.bytes.get(loc.0..loc.1.min(d.bytes.len())).unwrap_or(&[])));
                    continue;
                }
                _ => {}
            }
            let Ev::Element { attrs, loc, .. } = ev else { continue };
            let Some(ti) = d.toks.iter().position(|t| t.kind == TK::Start && t.start == loc.0) else { fail!("C14: audited element at {loc:?} is not a start tag of the layout") };
            ensure!(d.toks[ti].end == loc.1, "C14: after edits by earlier handlers, the element reports location {loc:?} but its start tag is {:?} ({:?})", (d.toks[ti].start, d.toks[ti].end), show(&d.bytes[d.toks[ti].start..d.toks[ti].end]));
            let src = &tree.elems[tree.tok_elem[ti].unwrap()].attrs;
            for a in attrs {
                if let Some(nl) = a.name_loc {
                    ensure!(src.iter().any(|s| s.name_range == nl && s.name_pc == a.name_pc), "C14: after an edit, attribute {:?} reports name location {nl:?}, which is not the bytes of that name (tag {:?})", a.name_pc, show(&d.bytes[loc.0..loc.1]));
                }
                if let Some(vl) = a.value_loc {
                    ensure!(src.iter().any(|s| s.value_range == vl && s.value == a.value), "C14: after an edit, attribute {:?} with value {:?} reports value location {vl:?}, which is not the bytes of that value (tag {:?}, bytes there {:?})", a.name_pc, a.value, show(&d.bytes[loc.0..loc.1]), show(d.bytes.get(vl.0..vl.1.min(d.bytes.len())).unwrap_or(&[])));
                }
                if !set_names.contains(&a.name) {
                    ensure!(a.name_loc.is_some() && a.value_loc.is_some(), "C14: untouched attribute {:?} lost its source location after another attribute was edited (tag {:?})", a.name_pc, show(&d.bytes[loc.0..loc.1]));
                }
                audited += 1;
            }
        }
        st.label_if(audited > 0, "locations_audited_after_edits");
        st.label_if(r.events.iter().any(|e| e.handler() == audit_h && matches!(e, Ev::Element { attrs, .. } if attrs.iter().any(|a| a.value_loc.is_none()))), "edited_attribute_without_location");
    }
    // classification
    let n_attr: usize = tree.elems.iter().map(|e| e.attrs.len()).sum();
    let cut_in_tok = cuts.iter().any(|c| d.toks.iter().any(|t| t.start < *c && *c < t.end && t.kind != TK::Text));
    let tok_after_shift = cuts.iter().any(|c| d.toks.iter().any(|t| t.start < *c && *c < t.end && t.kind != TK::Text) && d.toks.iter().any(|t| t.start >= *c));
    st.label_if(cut_in_tok, "cut_inside_token");
    st.label_if(n_attr > 0, "has_attrs");
    st.label_if(d.has_island, "island");
    st.label_if(d.has_misnest, "misnest");
    st.label_if(d.has_rawtext, "rawtext");
    st.label_if(cfg.mutates(), "rewrites_earlier_content");
    if tok_after_shift && n_attr > 0 {
        let mut key = d.bytes.clone();
        key.extend(cuts.iter().flat_map(|x| (*x as u32).to_le_bytes()));
        if st.nontrivial(fnv(&key)) {
            st.sample(|| json!({"doc": show(&d.bytes), "cuts": cuts, "tokens": d.toks.len(), "mutating_handlers": cfg.mutates()}));
        }
    }
    Ok(())
}

pub fn check_soup(input: &[u8], cuts: &[usize], cfg: &Cfg, st: &mut Stats) -> PResult {
    let r = run(&split(input, cuts), cfg);
    st.eval();
    if let Some(p) = r.panicked() {
        fail!("C14: panic: {p}");
    }
    // successive tokens of ONE handler never overlap or go backwards (different handlers report
    // the same token independently)
    let mut last: std::collections::HashMap<String, (usize, usize)> = Default::default();
    for e in &r.events {
        let Some((a, b)) = e.loc() else { continue };
        ensure!(a <= b && b <= input.len(), "C14: location {a}..{b} outside the input (len {}) for {e:?}", input.len());
        let key = format!("{}/{}", e.handler(), match e { Ev::Text { .. } => "t", Ev::Comment { .. } => "c", Ev::Doctype { .. } => "d", _ => "e" });
        let (prev_start, prev_end) = last.get(&key).copied().unwrap_or((0, 0));
        match e {
            Ev::EndTag { .. } => {
                // several elements may be closed by one end tag: same range repeated
                ensure!(a >= prev_end || (a == prev_start && b == prev_end), "C14: end tag location {a}..{b} overlaps or precedes the previous token ending at {prev_end}");
            }
            _ => ensure!(a >= prev_end, "C14: location {a}..{b} of {e:?} overlaps or precedes the previous token ending at {prev_end}"),
        }
        last.insert(key, (a, b));
        let s = &input[a..b];
        match e {
            Ev::Element { name_pc, attrs, self_closing, .. } => {
                ensure!(s.first() == Some(&b'<') && s.last() == Some(&b'>'), "C14: element range {a}..{b} = {:?} is not <...>", show(s));
                let rt = parse_tag(input, a).ok_or_else(|| Failure::new(format!("C14: bytes at element location {a} do not start a tag: {:?}", show(s))))?;
                ensure!(rt.end == Some(b), "C14: element location {a}..{b} but the tag at {a} ends at {:?}", rt.end);
                ensure!(!rt.is_end, "C14: element location points at an end tag");
                if cfg.encoding == encoding_rs::UTF_8 {
                    ensure!(String::from_utf8_lossy(&input[rt.name.0..rt.name.1]) == *name_pc, "C14: tag name at location differs: {:?} vs {name_pc:?}", show(&input[rt.name.0..rt.name.1]));
                }
                ensure!(rt.attrs.len() == attrs.len(), "C14: {} attributes reported, {} in the bytes at the reported location", attrs.len(), rt.attrs.len());
                ensure!(rt.self_closing == *self_closing, "C14: self-closing flag differs from the bytes at the location");
                for (ra, ga) in rt.attrs.iter().zip(attrs.iter()) {
                    ensure!(ga.name_loc == Some(ra.name), "C14: attribute name location {:?} but its bytes are at {:?} in {:?}", ga.name_loc, ra.name, show(s));
                    ensure!(ga.value_loc == Some(ra.value), "C14: attribute value location {:?} but its bytes are at {:?} in {:?}", ga.value_loc, ra.value, show(s));
                }
            }
            Ev::EndTag { .. } => {
                ensure!(s.starts_with(b"</") && s.last() == Some(&b'>'), "C14: end tag range {a}..{b} = {:?} is not </...>", show(s));
                let rt = parse_tag(input, a).ok_or_else(|| Failure::new(format!("C14: bytes at end tag location do not start an end tag: {:?}", show(s))))?;
                ensure!(rt.end == Some(b) && rt.is_end, "C14: end tag location {a}..{b} but the tag at {a} ends at {:?}", rt.end);
            }
            Ev::Comment { .. } => {
                ensure!(s.starts_with(b"<!") || s.starts_with(b"<?") || s.starts_with(b"</"), "C14: comment range {a}..{b} = {:?} does not start a comment", show(s));
                ensure!(s.last() == Some(&b'>') || b == input.len(), "C14: comment range {a}..{b} = {:?} neither ends with '>' nor at end of input", show(s));
            }
            Ev::Doctype { .. } => {
                ensure!(s.len() >= 9 && s[..9].eq_ignore_ascii_case(b"<!DOCTYPE"), "C14: doctype range {a}..{b} = {:?}", show(s));
                ensure!(s.last() == Some(&b'>') || b == input.len(), "C14: doctype range does not end with '>' or at end of input");
            }
            _ => {}
        }
    }
    if r.result.is_ok() {
        norm(&r.events).map_err(|e| Failure::new(format!("C14: text chunk ranges: {e}")))?;
    }
    st.label("soup_invariants");
    st.label_if(!cfg.sels.iter().any(|s| s.sel == "*") || cfg.docs.is_empty(), "soup_with_sparse_handlers");
    Ok(())
}

impl Prop for C14 {
    fn id(&self) -> &'static str {
        "C14"
    }
    fn fixed_cases(&self) -> Vec<FixedCase> {
        use crate::gens::doc::{Ns, build};
        vec![FixedCase {
            name: "integration-point-ns",
            finding: Some("C16-integration-point-ns"),
            what: "<math><annotation-xml encoding=text/html> is a MathML element (only its content is HTML)",
            run: Box::new(|st| {
                let d = build(&[
                    (TK::Start, "<math>", "math", Ns::MathMl, ""),
                    (TK::Start, "<annotation-xml encoding=\"text/html\">", "annotation-xml", Ns::MathMl, ""),
                    (TK::Start, "<div>", "div", Ns::Html, ""),
                    (TK::End, "</div>", "div", Ns::Html, ""),
                    (TK::End, "</annotation-xml>", "annotation-xml", Ns::Html, ""),
                    (TK::Start, "<mi>", "mi", Ns::MathMl, ""),
                    (TK::End, "</mi>", "mi", Ns::Html, ""),
                    (TK::End, "</math>", "math", Ns::MathMl, ""),
                    (TK::Start, "<svg>", "svg", Ns::Svg, ""),
                    (TK::Start, "<foreignObject>", "foreignObject", Ns::Svg, ""),
                    (TK::Start, "<p>", "p", Ns::Html, ""),
                    (TK::End, "</p>", "p", Ns::Html, ""),
                    (TK::End, "</foreignObject>", "foreignObject", Ns::Html, ""),
                    (TK::End, "</svg>", "svg", Ns::Svg, ""),
                ]);
                let mut cfg = Cfg::default();
                all_observers(&mut cfg);
                check_doc(&d, &[], &cfg, st)
            }),
        }]
    }
    fn rule(&self) -> String {
        "3/4 of cases: structured documents (generator owns the layout: mis-nested HTML, voids, raw-text elements, comments, doctypes, SVG/MathML islands with CDATA and integration points, odd attribute syntax) x schedule x observers (+ optional content-rewriting handlers); oracle: every reported element/end tag/comment/doctype/text-node range and every attribute name/value range equals the generator's (attribute ranges via the independent R-attr tokenizer), text chunks contiguous and covering. 1/4: byte soup, under every observer or (1/3) a generated sparse observer set, invariants only (ranges inside input, per handler increasing and non-overlapping, <...> shaped, bytes at the range re-tokenise to the same tag/attributes). non-trivial = a cut lies inside a non-text token, a later token exists (reported after a buffer shift) and the document has >= 1 attribute; distinct by hash(doc,cuts)".into()
    }
    fn assumptions(&self) -> Vec<String> {
        vec!["R-attr (harness WHATWG start-tag tokenizer) defines attribute name/value bytes".into()]
    }
    fn plan(&self, tier: Tier) -> Plan {
        match tier {
            Tier::Quick => Plan { cases: 2_000_000, tape_len: 300 },
            Tier::Thorough => Plan { cases: 30_000_000, tape_len: 420 },
        }
    }
    fn run(&self, tape: &[u16], st: &mut Stats) -> PResult {
        match decode(tape) {
            Case::Doc { d, cuts, cfg } => check_doc(&d, &cuts, &cfg, st),
            Case::Soup { input, cuts, cfg } => check_soup(&input, &cuts, &cfg, st),
        }
    }
    fn describe(&self, tape: &[u16]) -> Value {
        match decode(tape) {
            Case::Doc { d, cuts, cfg } => json!({"kind": "doc", "doc": show(&d.bytes), "cuts": cuts, "cfg": cfg.to_json(), "layout": d.toks.iter().map(|t| format!("{:?} {}..{} {:?} {:?}", t.kind, t.start, t.end, t.name, t.ns)).collect::<Vec<_>>()}),
            Case::Soup { input, cuts, cfg } => json!({"kind": "soup", "input": show(&input), "input_bytes": input, "cuts": cuts, "cfg": cfg.to_json()}),
        }
    }
}
