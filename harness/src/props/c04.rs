//! C04 Selector matching agrees with CSS selector semantics on every document.
use crate::engine::*;
use crate::gens::doc::{Doc, DocOpts, doc};
use crate::gens::sched::sched_spec;
use crate::gens::sel::selector_set;
use crate::model::css::{SelList, has_combinator, has_flattened_not, has_not_or_nth, matches, render};
use crate::model::tree::induce;
use crate::obs::{show, split};
use crate::tape::{Tape, fnv};
use crate::{ensure, fail};
use lol_html::html_content::Element;
use lol_html::{ElementContentHandlers, HtmlRewriter, Selector, Settings};
use serde_json::{Value, json};
use std::borrow::Cow;
use std::cell::RefCell;
use std::rc::Rc;

pub struct C04;

pub struct Case {
    pub sels: Vec<SelList>,
    pub d: Doc,
    pub cuts: Vec<usize>,
    pub esi: bool,
    /// 0: element handlers only (tag-scan mode between matches); 1: plus document-level text and
    /// comment handlers (the lexer runs everywhere); 2: every other selector also carries text,
    /// comment and end-tag handlers (mode changes at scope boundaries)
    pub mode: u8,
    /// number of never-matching filler registrations placed before the generated selectors
    /// (0, or enough to push them past the 32- and 64-handler marks of the match bit sets)
    pub pad: usize,
}

pub fn decode(tape: &[u16]) -> Case {
    let mut t = Tape::new(tape);
    let allow_flattened = !finding_open("C04-not-flattening") || t.chance(1, 12);
    let sels = selector_set(&mut t, 6, allow_flattened);
    let esi = t.chance(1, 8);
    let spec = sched_spec(&mut t);
    let odd = t.chance(1, 3);
    let mode = t.weighted(&[3, 1, 2]) as u8;
    let pad = if t.chance(1, 8) { *t.pick(&[26usize, 27, 28, 30, 31, 32, 33, 58, 62, 63, 64, 65, 100]) } else { 0 };
    let d = doc(&mut t, &DocOpts { max_items: 16, max_depth: 6, odd_attrs: odd, multibyte: false, ..DocOpts::default() });
    let cuts = spec.resolve(d.bytes.len());
    Case { sels, d, cuts, esi, mode, pad }
}

pub fn run_real(strs: &[String], input: &[u8], cuts: &[usize], esi: bool) -> Result<Vec<(usize, usize)>, String> {
    run_real_mode(strs, input, cuts, esi, 0)
}

pub fn run_real_mode(strs: &[String], input: &[u8], cuts: &[usize], esi: bool, mode: u8) -> Result<Vec<(usize, usize)>, String> {
    let log: Rc<RefCell<Vec<(usize, usize)>>> = Default::default();
    let r = guard(|| -> Result<(), String> {
        let mut st = Settings::new().with_strict(false).with_enable_esi_tags(esi);
        for (i, s) in strs.iter().enumerate() {
            let p: Selector = s.parse().map_err(|e| format!("selector {s:?} rejected: {e}"))?;
            let lg = log.clone();
            let scoped = mode == 2 && i % 2 == 0;
            let mut h = ElementContentHandlers::default().element(move |el: &mut Element<'_, '_>| {
                lg.borrow_mut().push((i, el.source_location().bytes().start));
                if scoped {
                    if let Some(hs) = el.end_tag_handlers() {
                        hs.push(Box::new(|_e: &mut lol_html::html_content::EndTag<'_>| Ok(())));
                    }
                }
                Ok(())
            });
            if scoped {
                h = h.text(|_t: &mut lol_html::html_content::TextChunk<'_>| Ok(())).comments(|_c: &mut lol_html::html_content::Comment<'_>| Ok(()));
            }
            st = st.append_element_content_handler((Cow::Owned(p), h));
        }
        if mode == 1 {
            st = st.append_document_content_handler(lol_html::DocumentContentHandlers::default().text(|_t: &mut lol_html::html_content::TextChunk<'_>| Ok(())).comments(|_c: &mut lol_html::html_content::Comment<'_>| Ok(())));
        }
        let mut rw = HtmlRewriter::new(st, |_: &[u8]| {});
        for c in split(input, cuts) {
            rw.write(c).map_err(|e| e.to_string())?;
        }
        rw.end().map_err(|e| e.to_string())
    });
    match r {
        Err(p) => Err(format!("panic: {p}")),
        Ok(Err(e)) => Err(e),
        Ok(Ok(())) => Ok(log.take()),
    }
}

pub fn check_case(c: &Case, st: &mut Stats) -> PResult {
    let strs: Vec<String> = c.sels.iter().map(render).collect();
    let tree = induce(&c.d, c.esi);
    st.eval();
    // fillers never match (their type names do not occur in any generated document); indices
    // reported for them are mis-dispatched handlers
    let mut all: Vec<String> = (0..c.pad).map(|k| if k % 3 == 0 { format!("zfill{k}") } else if k % 3 == 1 { format!("zfill{k}[zz]") } else { format!("div > zfill{k}") }).collect();
    all.extend(strs.iter().cloned());
    let got_raw = run_real_mode(&all, &c.d.bytes, &c.cuts, c.esi, c.mode).map_err(|e| Failure::new(format!("C04: {e}")))?;
    if let Some(bad) = got_raw.iter().find(|x| x.0 < c.pad) {
        fail!("C04: the handler of never-matching filler selector #{} ({:?}) ran for the tag at offset {} ({} fillers registered before the selectors {strs:?})\n  doc={:?}", bad.0, all[bad.0], bad.1, c.pad, show(&c.d.bytes));
    }
    let mut got: Vec<(usize, usize)> = got_raw.into_iter().map(|x| (x.0 - c.pad, x.1)).collect();
    st.label_if(c.pad > 0, "many_registrations");
    let n = got.len();
    got.sort();
    got.dedup();
    ensure!(got.len() == n, "C04: an element handler ran twice for the same (selector, element)");
    let mut exp: Vec<(usize, usize)> = vec![];
    for (i, s) in c.sels.iter().enumerate() {
        for e in 0..tree.elems.len() {
            if matches(s, &tree, e) {
                exp.push((i, c.d.toks[tree.elems[e].tok].start));
            }
        }
    }
    exp.sort();
    let flattened = c.sels.iter().any(has_flattened_not);
    if got != exp {
        let extra: Vec<_> = got.iter().filter(|x| !exp.contains(x)).collect();
        let missing: Vec<_> = exp.iter().filter(|x| !got.contains(x)).collect();
        let msg = format!(
            "C04: selector matches differ from CSS semantics on the induced tree.\n  selectors={strs:?}\n  doc={:?}\n  handler ran but should not (selector#, tag offset): {extra:?}\n  should have run but did not: {missing:?}",
            show(&c.d.bytes)
        );
        // classification: only mismatches of selectors carrying the signature are the known finding
        let culprit_all_flattened = extra.iter().chain(missing.iter()).all(|(i, _)| has_flattened_not(&c.sels[*i]));
        if flattened && culprit_all_flattened && finding_open("C04-not-flattening") {
            return Err(Failure::known("C04-not-flattening", msg));
        }
        return Err(Failure::new(msg));
    }
    // independence from other registered selectors: each selector alone gives the same matches
    if c.sels.len() > 1 {
        let k = c.cuts.len() % c.sels.len();
        st.eval();
        let alone = run_real(&strs[k..k + 1], &c.d.bytes, &c.cuts, c.esi).map_err(|e| Failure::new(format!("C04: {e}")))?;
        let mut alone: Vec<usize> = alone.into_iter().map(|x| x.1).collect();
        alone.sort();
        let together: Vec<usize> = got.iter().filter(|x| x.0 == k).map(|x| x.1).collect();
        ensure!(alone == together, "C04: matches of selector {:?} depend on the other registered selectors {strs:?}: alone={alone:?} together={together:?} doc={:?}", strs[k], show(&c.d.bytes));
    }
    st.label(&format!("handler_mode_{}", c.mode));
    let comb = c.sels.iter().any(|s| has_combinator(s) || has_not_or_nth(s));
    let deep = tree.elems.iter().any(|e| e.depth >= 2);
    let multi_close = tree.closes.iter().any(|c| c.len() > 1) || c.d.has_misnest;
    st.label_if(!exp.is_empty(), "has_expected_match");
    st.label_if(comb, "combinator_or_not_or_nth");
    st.label_if(multi_close, "multi_close_or_stray");
    st.label_if(c.d.has_island, "island");
    st.label_if(flattened, "flattened_not_generated");
    st.label_if(c.sels.len() > 1, "multiple_selectors");
    if comb && deep && multi_close && !exp.is_empty() {
        let mut key = c.d.bytes.clone();
        key.extend(format!("{strs:?}").as_bytes());
        if st.nontrivial(fnv(&key)) {
            st.sample(|| json!({"selectors": strs, "doc": show(&c.d.bytes), "cuts": c.cuts, "expected_matches": exp.len()}));
        }
    }
    Ok(())
}

impl Prop for C04 {
    fn id(&self) -> &'static str {
        "C04"
    }
    fn fixed_cases(&self) -> Vec<FixedCase> {
        use crate::gens::doc::{Ns, TK, build};
        use crate::model::css::{Complex, Simple};
        fn one(s: Vec<Simple>) -> Vec<SelList> {
            vec![vec![Complex { parts: vec![(s, ' ')] }]]
        }
        vec![
            FixedCase {
                name: "empty-operand-attr-selectors",
                finding: Some("C04-empty-operand"),
                what: "[id^=\"\"], [id$=\"\"], [class~=\"\"] never match",
                run: Box::new(|st| {
                    let d = build(&[(TK::Start, "<div id=\"a\" class=\" a \">", "div", Ns::Html, ""), (TK::End, "</div>", "div", Ns::Html, "")]);
                    for (name, op) in [("id", "^="), ("id", "$="), ("class", "~=")] {
                        let sels = one(vec![Simple::Attr { name: name.into(), op, val: "".into(), flag: None }]);
                        check_case(&Case { sels, d: d.clone(), cuts: vec![], esi: false, mode: 0, pad: 0 }, st)?;
                    }
                    Ok(())
                }),
            },
            FixedCase {
                name: "not-compound-argument",
                finding: Some("C04-not-flattening"),
                what: ":not(p.foo) must match a <p> without class foo; :not(:not(#a, #b)) must match #a",
                run: Box::new(|st| {
                    let d = build(&[(TK::Start, "<p id=\"a\">", "p", Ns::Html, ""), (TK::End, "</p>", "p", Ns::Html, "")]);
                    let s1 = one(vec![Simple::Not(vec![vec![Simple::Type("p".into()), Simple::Class("foo".into())]])]);
                    check_case(&Case { sels: s1, d: d.clone(), cuts: vec![], esi: false, mode: 0, pad: 0 }, st)?;
                    let s2 = one(vec![Simple::Not(vec![vec![Simple::Not(vec![vec![Simple::Id("a".into())], vec![Simple::Id("b".into())]])]])]);
                    check_case(&Case { sels: s2, d, cuts: vec![], esi: false, mode: 0, pad: 0 }, st)
                }),
            },
        ]
    }
    fn rule(&self) -> String {
        "case = (set of 1-6 selectors from the full supported grammar built from a shared pool of compounds, structured document incl. mis-nesting/voids/foreign islands/odd attribute syntax, schedule, optionally 26-100 never-matching filler registrations before them [handler ids beyond one 32-bit word of the match sets], handler mode [element handlers only / plus document-level text+comment handlers / every other selector also carrying text, comment and end-tag handlers]); oracle: for every selector the set of start-tag offsets its element handler fired for == R-css(selector) evaluated on R-tree (tree induced from the flat token sequence), no duplicate invocation, and one selector registered alone gives the same matches. non-trivial = some selector has a combinator/:not/:nth-*, the document has depth >= 2 and an end tag closing several elements or a stray/omitted end tag, and >= 1 expected match; distinct by hash(doc, selectors)".into()
    }
    fn assumptions(&self) -> Vec<String> {
        vec!["attribute names avoid the `selectors` crate's legacy case-insensitive-value list so that value matching is exactly the CSS operator + flag rule".into(), "open finding C04-not-flattening: :not() with compound arguments (odd depth) / list arguments (even depth) is generated rarely and classified by signature".into()]
    }
    fn plan(&self, tier: Tier) -> Plan {
        match tier {
            Tier::Quick => Plan { cases: 1_500_000, tape_len: 420 },
            Tier::Thorough => Plan { cases: 20_000_000, tape_len: 520 },
        }
    }
    fn run(&self, tape: &[u16], st: &mut Stats) -> PResult {
        check_case(&decode(tape), st)
    }
    fn describe(&self, tape: &[u16]) -> Value {
        let c = decode(tape);
        json!({"selectors": c.sels.iter().map(render).collect::<Vec<_>>(), "doc": show(&c.d.bytes), "cuts": c.cuts, "esi": c.esi, "handler_mode": c.mode, "filler_registrations_before": c.pad})
    }
}
