//! C10 Memory limit: input-driven buffers stay within the limit or the call fails.
use crate::engine::*;
use crate::gens::input::{InputOpts, input_in};
use crate::gens::sched::sched_spec;
use crate::obs::*;
use crate::tape::{Tape, fnv};
use crate::{ensure, fail};
use serde_json::{Value, json};

pub struct C10;

pub struct Case {
    pub input: Vec<u8>,
    pub cuts: Vec<usize>,
    pub cfg: Cfg,
    pub family: &'static str,
    pub limits: Vec<usize>,
}

fn cfg_kind(k: usize) -> (Cfg, &'static str) {
    let mut cfg = Cfg::default();
    let name = match k {
        0 => "none",
        1 => {
            cfg.sels.push(SelSpec { sel: "*".into(), el: true, ..Default::default() });
            "star_el"
        }
        2 => {
            cfg.docs.push(DocSpec { text: true, ..Default::default() });
            "doc_text"
        }
        3 => {
            cfg.docs.push(DocSpec { comments: true, ..Default::default() });
            "doc_comments"
        }
        4 => {
            cfg.sels.push(SelSpec { sel: "div[x] > span[y]".into(), el: true, ..Default::default() });
            "sel_attr"
        }
        5 => {
            cfg.sels.push(SelSpec { sel: "div span".into(), el: true, end_tag: true, ..Default::default() });
            "sel_descendant"
        }
        _ => {
            cfg.sels.push(SelSpec { sel: "p:nth-of-type(2)".into(), el: true, text: true, ..Default::default() });
            cfg.docs.push(DocSpec { doctype: true, comments: true, text: true, end: true, ops: vec![] });
            "all_observers"
        }
    };
    (cfg, name)
}

/// occasionally a much deeper nesting (stack growth steps beyond the first few)
fn deep(n: usize, t: &mut Tape) -> usize {
    if t.chance(1, 6) { n * (2 + t.below(10)) } else { n }
}

pub fn decode(tape: &[u16]) -> Case {
    let mut t = Tape::new(tape);
    let prealloc = *t.pick(&[0usize, 0, 1, 64, 1024]);
    let spec = sched_spec(&mut t);
    let fam = t.below(10);
    let n = 10 + t.below(600);
    let (input, cfg, family): (Vec<u8>, Cfg, &'static str) = match fam {
        0 => (format!("<div {}", "a".repeat(n)).into_bytes(), cfg_kind(1).0, "unterminated_tag_with_capturing_handler"),
        1 => (format!("<div x=\"{}\">tail", "v".repeat(n)).into_bytes(), cfg_kind(1).0, "long_attribute_value"),
        2 => (format!("<!-- {} -->x", "c".repeat(n)).into_bytes(), cfg_kind(3).0, "long_comment_captured"),
        3 => (format!("<{}>x", "t".repeat(n)).into_bytes(), cfg_kind(0).0, "long_tag_name_no_handlers"),
        4 => ("<div x><span y>".repeat(1 + deep(n, &mut t) / 8).into_bytes(), cfg_kind(4).0, "deep_nesting_attr_selector"),
        5 => ("<div><span>".repeat(1 + deep(n, &mut t) / 4).into_bytes(), cfg_kind(5).0, "deep_nesting_descendant_selector"),
        6 => (format!("text {} <b>{}</b>", "\u{e9}".repeat(n), "z".repeat(n)).into_bytes(), cfg_kind(2).0, "long_text_captured"),
        7 => (format!("<!DOCTYPE {} PUBLI", "d".repeat(n)).into_bytes(), cfg_kind(6).0, "unterminated_doctype_lookahead"),
        8 => (format!("<p>{}</p><p><![CDATA[{}", "<i>".repeat(n / 6), "q".repeat(n)).into_bytes(), cfg_kind(6).0, "many_elements_all_observers"),
        _ => {
            let k = t.below(7);
            let (cfg, _) = cfg_kind(k);
            (input_in(&mut t, &InputOpts { max_frags: 16, ..Default::default() }, encoding_rs::UTF_8), cfg, "soup")
        }
    };
    let mut cfg = cfg;
    cfg.prealloc = prealloc;
    let cuts = spec.resolve(input.len());
    // sweep: every value in a window chosen from the tape + geometric continuation
    let mut limits: Vec<usize> = vec![];
    let lo = prealloc;
    let dense_to = lo + 96;
    limits.extend(lo..dense_to);
    let mut m = dense_to;
    while m < (input.len() * 3).max(40_000) {
        m += 1 + m / 8 + t.below(1 + m / 8);
        limits.push(m);
    }
    // a dense window around the input length (first buffering of a tail)
    let w = input.len().saturating_sub(8).max(lo);
    limits.extend(w..w + 24);
    limits.sort();
    limits.dedup();
    Case { input, cuts, cfg, family, limits }
}

/// Minimal limit under which `opens` never-closed elements of the family's shape are accepted
/// (single write, nothing buffered), by bisection (monotonicity is checked by the sweep).
fn min_limit_for(c: &Case, opens: usize, st: &mut Stats) -> Option<usize> {
    let unit: &[u8] = if c.family == "deep_nesting_attr_selector" { b"<div x>" } else { b"<div>" };
    let doc = unit.repeat(opens);
    let ok = |m: usize, st: &mut Stats| {
        let mut f = c.cfg.clone();
        f.max_mem = m;
        st.eval();
        run(&[&doc[..]], &f).result.is_ok()
    };
    let (mut lo, mut hi) = (c.cfg.prealloc, 1usize << 22);
    if !ok(hi, st) {
        return None;
    }
    if ok(lo, st) {
        return Some(lo);
    }
    // invariant: !ok(lo), ok(hi)
    while hi - lo > 1 {
        let mid = lo + (hi - lo) / 2;
        if ok(mid, st) { hi = mid } else { lo = mid }
    }
    Some(hi)
}

thread_local! {
    static STACK_COST: std::cell::RefCell<std::collections::HashMap<String, (usize, usize)>> = Default::default();
}

/// (bytes per open element, fixed bytes), derived from the limits needed for 1 and for 9 open
/// elements: the stack grows in steps, L(1) = fixed + g*S and L(9) = fixed + 2g*S for the
/// first growth step g (8 today), so S >= (L(9)-L(1))/8 whenever g <= 8; (0,0) if no step is seen.
fn stack_item_cost(c: &Case, st: &mut Stats) -> (usize, usize) {
    let key = format!("{}|{}", c.family, c.cfg.to_json());
    if let Some(v) = STACK_COST.with(|m| m.borrow().get(&key).copied()) {
        return v;
    }
    let v = match (min_limit_for(c, 1, st), min_limit_for(c, 9, st)) {
        (Some(l1), Some(l9)) if l9 > l1 => {
            let s = (l9 - l1) / 8;
            (s, l1.saturating_sub(8 * s))
        }
        _ => (0, 0),
    };
    STACK_COST.with(|m| m.borrow_mut().insert(key, v));
    v
}

/// Families that keep feeding NEW names / values through a rewriter with a small memory limit:
/// whatever the rewriter keeps per distinct name must be released (or charged), so the live heap
/// of the process may not grow with the input. (limit, documents of `per` items, chunks)
pub const HEAP: &[(&str, usize)] = &[("distinct_element_names_flat", 40_000), ("distinct_element_names_nested_closed", 40_000), ("distinct_attribute_names", 40_000), ("distinct_class_values", 40_000)];
pub const HEAP_LIMIT: usize = 16_384;
/// growth allowed beyond the limit (allocator slack, hash-map capacity steps): far below what
/// 40 000 retained names would take
pub const HEAP_SLACK: usize = 192 * 1024;

pub fn heap_probe(family: &str, n: usize, live: &dyn Fn() -> isize) -> Result<String, String> {
    use lol_html::{HtmlRewriter, MemorySettings, Settings, element};
    let item = |i: usize| -> String {
        match family {
            "distinct_element_names_flat" => format!("<x-{i:07}></x-{i:07}>"),
            "distinct_element_names_nested_closed" => format!("<div><y{i:07}><b></b></y{i:07}></div>"),
            "distinct_attribute_names" => format!("<p a{i:07}=1 class=c></p>"),
            _ => format!("<p class=\"k{i:07} z\" id=i{i:07}></p>"),
        }
    };
    // chunks are built before the measurement starts; the sink discards output
    let chunks: Vec<String> = (0..n).collect::<Vec<_>>().chunks(50).map(|c| c.iter().map(|i| item(*i)).collect::<String>()).collect();
    let settings = Settings::new()
        .with_memory_settings(MemorySettings::new().with_max_allowed_memory_usage(HEAP_LIMIT).with_preallocated_parsing_buffer_size(0))
        .append_element_content_handler(element!("*", |_el| Ok(())))
        .append_element_content_handler(element!("p.z[id]", |_el| Ok(())))
        .append_element_content_handler(element!("div > * > b", |_el| Ok(())));
    let before = live();
    let mut rw = HtmlRewriter::new(settings, |_: &[u8]| {});
    let after_new = live();
    for c in &chunks {
        if let Err(e) = rw.write(c.as_bytes()) {
            // failing with MemoryLimitExceeded is the other legitimate outcome
            return Ok(format!("write failed: {e} (heap growth so far {})", live() - before));
        }
    }
    let after_writes = live();
    let growth = (after_writes - after_new).max(0) as usize;
    drop(rw);
    if growth > HEAP_LIMIT + HEAP_SLACK {
        return Err(format!("the live heap of the process grew by {growth} bytes while {n} items with distinct names were written under max_allowed_memory_usage={HEAP_LIMIT} and every write succeeded (allowed: limit + {HEAP_SLACK} bytes of slack)"));
    }
    Ok(format!("heap_growth={growth}"))
}

pub fn check_case(c: &Case, st: &mut Stats) -> PResult {
    let chunks = split(&c.input, &c.cuts);
    let mut free = c.cfg.clone();
    free.max_mem = usize::MAX;
    let base = run(&chunks, &free);
    st.eval();
    if let Some(p) = base.panicked() {
        fail!("C10: panic without a memory limit: {p}");
    }
    ensure!(base.result.is_ok(), "C10: unlimited run failed: {:?}", base.result);
    let base_norm = norm(&base.events).map_err(|e| Failure::new(format!("C10: {e}")))?;
    let passthrough = !c.cfg.mutates();
    let mut first_ok: Option<usize> = None;
    let (mut saw_fail, mut saw_ok) = (false, false);
    for &m in &c.limits {
        let mut f = c.cfg.clone();
        f.max_mem = m;
        let r = run(&chunks, &f);
        st.eval();
        if let Some(p) = r.panicked() {
            fail!("C10: panic with max_allowed_memory_usage={m} prealloc={}: {p}\n  family={} input_len={} cuts={:?}", c.cfg.prealloc, c.family, c.input.len(), &c.cuts[..c.cuts.len().min(8)]);
        }
        match &r.result {
            Ok(()) => {
                saw_ok = true;
                // open-element bookkeeping: with selectors registered every never-closed
                // non-void element occupies a stack item (far more than 16 bytes each)
                if c.family.starts_with("deep_nesting") {
                    let open = c.input.iter().filter(|b| **b == b'<').count();
                    ensure!(open * 16 <= m, "C10: {open} elements are open under a selector set but the run succeeded with a memory limit of only {m} bytes (bookkeeping not limited)");
                    // self-calibrated linear bound: the per-element cost S and the fixed cost c are
                    // measured on the same configuration with 1 and 9 open elements
                    let (s_item, fixed) = stack_item_cost(c, st);
                    st.label_if(s_item > 16, "stack_cost_calibrated");
                    ensure!(fixed + open * s_item <= m, "C10: {open} elements are open under a selector set but the run succeeded with a memory limit of {m} bytes; the same configuration needs {fixed} + {s_item} bytes per open element for its first 16 elements (open-element bookkeeping grows without being charged)");
                }
                if first_ok.is_none() {
                    first_ok = Some(m);
                }
                ensure!(r.out == base.out, "C10: output under limit {m} differs from the unlimited run (diff at {})", first_diff(&r.out, &base.out));
                let n = norm(&r.events).map_err(|e| Failure::new(format!("C10: {e}")))?;
                ensure!(n == base_norm, "C10: events under limit {m} differ from the unlimited run");
            }
            Err(ErrKind::Mem) => {
                saw_fail = true;
                if let Some(p) = first_ok {
                    fail!("C10: non-monotone: the run succeeds under limit {p} but fails under the larger limit {m} (prealloc {}, family {}, input_len {}, cuts {:?})", c.cfg.prealloc, c.family, c.input.len(), &c.cuts[..c.cuts.len().min(8)]);
                }
            }
            Err(e) => fail!("C10: unexpected error kind {e:?} under limit {m}"),
        }
        // accounted usage and pending bytes after every successful call
        let mut bytes_in = 0;
        for (i, ch) in chunks.iter().enumerate() {
            let Some(out) = r.out_after_write.get(i) else { break };
            bytes_in += ch.len();
            let used = r.mem_after_write[i];
            ensure!(used <= m, "C10: accounted memory {used} exceeds the limit {m} after successful write #{i} (family {}, prealloc {})", c.family, c.cfg.prealloc);
            if passthrough {
                // a text decoder may additionally hold the <= 3 head bytes of one split character
                // (constant-size codec state, not an input-driven buffer)
                let slack = if c.cfg.has_text_handler() { 3 } else { 0 };
                let pending = bytes_in.saturating_sub(*out);
                ensure!(pending <= m + slack, "C10: {pending} input bytes retained (not yet emitted) after successful write #{i} under limit {m}");
                ensure!(pending <= used + slack, "C10: {pending} bytes retained but only {used} bytes accounted for under limit {m} (write #{i}, family {})", c.family);
            }
        }
        // the one-shot entry point takes the same settings: the limit applies to it as well
        if c.cuts.is_empty() && c.cfg.encoding == encoding_rs::UTF_8 && !c.cfg.adjust_charset {
            if let Ok(text) = std::str::from_utf8(&c.input) {
                let (res, out, _) = run_str(text, &f);
                st.eval();
                let kind = match &res { Ok(()) => "ok", Err(e) => e.short() };
                ensure!(kind == r.kind(), "C10: rewrite_str under limit {m} => {kind}, HtmlRewriter (one write) under the same settings => {} (family {}, prealloc {})", r.kind(), c.family, c.cfg.prealloc);
                if res.is_ok() {
                    ensure!(out == r.out, "C10: rewrite_str output under limit {m} differs from HtmlRewriter's");
                }
                st.label("rewrite_str_compared");
            }
        }
        // determinism: the failing call is a function of (limit, configuration, schedule)
        let r2 = run(&chunks, &f);
        st.eval();
        ensure!(r2.kind() == r.kind() && r2.failed_call == r.failed_call && r2.out == r.out, "C10: two identical runs under limit {m} disagree: {:?}@{:?} vs {:?}@{:?}", r.kind(), r.failed_call, r2.kind(), r2.failed_call);
    }
    st.label(c.family);
    st.label_if(saw_fail && saw_ok, "sweep_has_both_outcomes");
    st.label_if(c.cfg.prealloc > 0, "preallocated");
    st.label_if(c.cuts.len() > 1, "multi_write");
    if saw_fail && saw_ok {
        let mut key = c.input.clone();
        key.extend(format!("{:?}{:?}", c.cuts, c.cfg.to_json()).as_bytes());
        if st.nontrivial(fnv(&key)) {
            st.sample(|| json!({"family": c.family, "input_len": c.input.len(), "input_head": show(&c.input[..c.input.len().min(60)]), "cuts": c.cuts.len(), "prealloc": c.cfg.prealloc, "limits_swept": c.limits.len(), "first_sufficient_limit": first_ok}));
        }
    }
    Ok(())
}

impl Prop for C10 {
    fn id(&self) -> &'static str {
        "C10"
    }
    fn extra(&self, ctx: &Ctx, st: &mut Stats) -> Result<(), (Failure, Value)> {
        let exe = std::env::current_exe().map_err(|e| (Failure::new(format!("current_exe: {e}")), json!(null)))?;
        for (name, n) in HEAP {
            st.eval();
            let case = json!({"heap_family": name, "n": n, "replay": format!("lolv C10 --heap {name} {n}")});
            match std::process::Command::new(&exe).args(["C10", "--heap", name, &n.to_string()]).env("VERIF_ROOT", &ctx.root).output() {
                Err(e) => {
                    st.label(&format!("heap_probe_inconclusive_{name}: {e}"));
                }
                Ok(o) => {
                    let so = String::from_utf8_lossy(&o.stdout).trim().to_string();
                    if so.starts_with("FAILED") {
                        return Err((Failure::new(format!("C10: {}", so.trim_start_matches("FAILED "))), case));
                    }
                    if !o.status.success() {
                        st.label(&format!("heap_probe_inconclusive_{name}"));
                        continue;
                    }
                    st.label(&format!("heap_{name}"));
                    st.nontrivial(fnv(name.as_bytes()));
                    st.extra_results.push(json!({"heap_family": name, "n": n, "limit": HEAP_LIMIT, "outcome": so}));
                }
            }
        }
        Ok(())
    }
    fn level(&self) -> &'static str {
        "fault_enumeration"
    }
    fn rule(&self) -> String {
        "case = (growth-targeted input family [unterminated tag/attribute/comment/doctype under capturing handlers, long tag name without handlers, deep nesting with attribute/descendant selectors, long captured text, many elements] or soup, handler configuration, preallocation p in {0,1,64,1024} held FIXED across the sweep, schedule); the limit M is swept over every value p..p+96, a dense window around the input length and a geometric continuation beyond the need; oracle per M: result is Ok or MemoryLimitExceeded (never a panic/other error); after every successful call accounted usage (hook) <= M and retained bytes_in-bytes_out <= accounted; Ok => output and events identical to the unlimited run; success under M => success under every larger M; two identical runs agree on the failing call; for single-write UTF-8 cases `rewrite_str` with the same settings gives the same result kind and output; for the deep-nesting families a run with k open elements may only succeed when M >= c + k*S, where the per-element cost S and fixed cost c are measured on the same configuration by bisecting the minimal limit for 1 and for 9 open elements (open-element bookkeeping is charged linearly, not only for its first growth steps). plus four heap families in a child process with a counting allocator: 40 000 items with distinct element names / attribute names / class and id values written under a 16 KiB limit may not grow the live heap by more than limit + 192 KiB (bookkeeping keyed by names must be released or charged). non-trivial = the sweep contains both a failing and a succeeding limit; evaluations = rewriter runs".into()
    }
    fn assumptions(&self) -> Vec<String> {
        vec!["documented precondition preallocated_parsing_buffer_size <= max_allowed_memory_usage is respected".into(), "accounted usage read through the _verif_hooks accessor".into(), "with a text handler the streaming decoder may hold <= 3 bytes of one split character outside the accounted buffers (constant-size codec state)".into(), "the tree-builder simulator's namespace stack is not accounted by the limiter (not observable, see DESIGN section 7)".into()]
    }
    fn plan(&self, tier: Tier) -> Plan {
        match tier {
            Tier::Quick => Plan { cases: 12_000, tape_len: 220 },
            Tier::Thorough => Plan { cases: 400_000, tape_len: 260 },
        }
    }
    fn run(&self, tape: &[u16], st: &mut Stats) -> PResult {
        check_case(&decode(tape), st)
    }
    fn describe(&self, tape: &[u16]) -> Value {
        let c = decode(tape);
        json!({"family": c.family, "input": show(&c.input[..c.input.len().min(400)]), "input_len": c.input.len(), "cuts": c.cuts, "cfg": c.cfg.to_json(), "limits": c.limits.len()})
    }
}
