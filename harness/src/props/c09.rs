//! C09 Low output latency: only an unfinished trailing construct is held back.
use crate::engine::*;
use crate::gens::doc::{Doc, DocOpts, Ns, TK, doc};
use crate::gens::input::{InputOpts, input_in};
use crate::obs::*;
use crate::tape::{Tape, fnv, frac_to_pos};
use crate::{ensure, fail};
use serde_json::{Value, json};

pub struct C09;

#[derive(Clone, Copy, Debug, PartialEq, Eq)]
pub enum HK {
    None,
    NonMatching,
    Observers,
    Sparse,
}

pub struct Case {
    pub input: Vec<u8>,
    pub doc: Option<Doc>,
    pub hk: HK,
    /// for HK::Sparse: generated observer set (selectors that match only some tags: the parser
    /// switches between tag-scan and lexer mode inside the document)
    pub sparse: Option<Cfg>,
    pub random: Vec<Vec<usize>>,
    pub long_tail: usize,
}

pub fn cfg_for(hk: HK) -> Cfg {
    let mut cfg = Cfg::default();
    match hk {
        HK::None => {}
        HK::NonMatching => {
            cfg.sels.push(SelSpec { sel: "nomatch-zz".into(), el: true, end_tag: true, text: true, comments: true, ops: vec![] });
            cfg.sels.push(SelSpec { sel: "nomatch-zz > b".into(), el: true, ..Default::default() });
        }
        HK::Sparse => {}
        HK::Observers => {
            cfg.docs.push(DocSpec { doctype: true, comments: true, text: true, end: true, ops: vec![] });
            cfg.sels.push(SelSpec { sel: "*".into(), el: true, end_tag: true, ..Default::default() });
        }
    }
    cfg
}

pub fn decode(tape: &[u16]) -> Case {
    let mut t = Tape::new(tape);
    let hk = *t.pick(&[HK::None, HK::None, HK::NonMatching, HK::Observers, HK::Sparse]);
    let fr: Vec<Vec<u16>> = (0..2).map(|_| { let k = t.range(1, 5); (0..k).map(|_| t.frac()).collect() }).collect();
    let use_doc = t.chance(2, 3);
    // occasionally a long run of text after the generated prefix (withheld text would show)
    let long_tail = if t.chance(1, 8) { 3000 } else { 0 };
    let (input, d) = if t.chance(1, 4) {
        // raw-text / escaped-script soup: abandoned end-tag candidates and escape look-aheads
        const F: &[&str] = &["<script>", "<!--", "-->", "</scrip-", "</scripx", "<script", "<script>", "</script", "</scrip", "x", " y ", "-", "--", "<", "</", "<!", "<title>", "</titl-", "<style>", "</sty e", "<textarea>", "</textarea-", "</", "</a-", "<scr ipt", "<!-", "</scriptx"];
        let n = t.range(1, 8);
        let mut v = Vec::new();
        for _ in 0..n {
            v.extend_from_slice(t.pick(F).as_bytes());
        }
        (v, None)
    } else if use_doc {
        let d = doc(&mut t, &DocOpts { max_items: 7, max_attrs: 2, ..DocOpts::default() });
        (d.bytes.clone(), Some(d))
    } else {
        (input_in(&mut t, &InputOpts { max_frags: 10, ..Default::default() }, encoding_rs::UTF_8), None)
    };
    let random = fr.iter().map(|f| { let mut v: Vec<usize> = f.iter().map(|x| frac_to_pos(*x, input.len())).collect(); v.sort(); v }).collect();
    let sparse = if hk == HK::Sparse {
        let mut cfg = Cfg::default();
        crate::gens::handlers::observers(&mut t, &mut cfg, 3, 1);
        Some(cfg)
    } else {
        None
    };
    Case { input, doc: d, hk, sparse, random, long_tail }
}

fn suffix_len(s: &[u8], pred: impl Fn(&[u8]) -> bool, max: usize) -> usize {
    (1..=max.min(s.len())).rev().find(|n| pred(&s[s.len() - n..])).unwrap_or(0)
}

fn is_end_tag_candidate(s: &[u8]) -> bool {
    // "<" | "</" letters*
    s == b"<" || (s.starts_with(b"</") && s[2..].iter().all(|c| c.is_ascii_alphabetic()))
}

/// (open finding C09-foreign-tags-buffered) exactly the tags of an SVG/MathML island whose
/// effect on the namespace depends on more than the name: integration-point start tags
/// (self-closing flag), `<font>` (attributes), and MathML tags whose name has no 64-bit hash
/// (`annotation-xml`: name compared as text, `encoding` attribute). Every other foreign tag -
/// `<svg>`/`<math>` themselves, breakout tags, `</svg>`, integration-point end tags - is decided by
/// its name alone and is released like an HTML tag.
fn foreign_tag_needs_whole(tok: &crate::gens::doc::Tok) -> bool {
    let n = tok.name.to_ascii_lowercase();
    let maybe_unhashable = n.len() > 12 || !n.bytes().all(|c| c.is_ascii_alphabetic() || (b'1'..=b'6').contains(&c));
    match tok.kind {
        TK::Start => match n.as_str() {
            "svg" | "math" => false,
            "font" => true,
            "desc" | "title" | "foreignobject" => tok.ns == Ns::Svg,
            "mi" | "mo" | "mn" | "ms" | "mtext" => tok.ns == Ns::MathMl,
            _ => maybe_unhashable && tok.ns != Ns::Svg,
        },
        TK::End => maybe_unhashable,
        _ => false,
    }
}

/// R-latency: upper bound of bytes that may be held back when the prefix `d.bytes[..k]` has
/// been written, derived from the generator's layout only.
pub fn allowed(d: &Doc, k: usize, hk: HK) -> usize {
    let Some(tok) = d.toks.iter().find(|t| t.start < k && k <= t.end) else { return 0 };
    let off = k - tok.start;
    let complete = k == tok.end;
    let pre = &d.bytes[tok.start..k];
    // with any handler registered the property only promises "at most the single unfinished token"
    let lexing = hk != HK::None;
    match tok.kind {
        TK::Start | TK::End => {
            if complete {
                0
            } else if lexing || (tok.island && foreign_tag_needs_whole(tok) && finding_open("C09-foreign-tags-buffered")) {
                // (open finding) tags in foreign content may need the whole tag for the tree
                // builder simulation (integration points, <font>, annotation-xml)
                off
            } else if k <= tok.name_end {
                off
            } else {
                0
            }
        }
        TK::Comment => {
            if complete {
                0
            } else if !d.bytes[tok.start..].starts_with(b"<!--") {
                // bogus comment: consumed as it comes, except while `<!` + up to 7 bytes could
                // still become `<!DOCTYPE` / `<![CDATA[` (and, with handlers, the whole token)
                if lexing || off <= 9 { off } else { 0 }
            } else if lexing || off <= 4 {
                off
            } else {
                suffix_len(pre, |s| s.iter().all(|c| *c == b'-' || *c == b'!'), 3)
            }
        }
        TK::Doctype => {
            if complete {
                0
            } else if lexing || off <= 9 {
                off
            } else {
                suffix_len(pre, |s| b"PUBLIC"[..s.len().min(6)].eq_ignore_ascii_case(s) || b"SYSTEM"[..s.len().min(6)].eq_ignore_ascii_case(s), 5)
            }
        }
        TK::CdataMarker => {
            if complete {
                0
            } else if d.bytes[tok.start] == b']' {
                // the "]]>" look-ahead may start in the trailing ']'s of the CDATA text
                2
            } else {
                off
            }
        }
        TK::Text => {
            let mut a = match tok.text_type {
                "Data" => 0,
                "CDataSection" => suffix_len(pre, |s| s.iter().all(|c| *c == b']'), 2),
                "ScriptData" => suffix_len(pre, |s| is_end_tag_candidate(s) || s == b"<!" || s == b"<!-" || s == b"-" || s == b"--" || (s.len() <= 7 && b"<script"[..s.len()].eq_ignore_ascii_case(s)), 12),
                _ => suffix_len(pre, is_end_tag_candidate, 12),
            };
            if lexing {
                // a partial multi-byte character at the end of captured text is unfinished text
                let tail = (1..=3usize.min(pre.len())).find(|n| {
                    let b = pre[pre.len() - n];
                    b >= 0xC0 && { let need = if b >= 0xF0 { 4 } else if b >= 0xE0 { 3 } else { 2 }; *n < need }
                });
                a = a.max(tail.unwrap_or(0));
            }
            a
        }
    }
}

pub fn check_case(c: &Case, st: &mut Stats) -> PResult {
    let cfg = c.sparse.clone().unwrap_or_else(|| cfg_for(c.hk));
    let mut input = c.input.clone();
    let n0 = input.len();
    if c.long_tail > 0 {
        // the tail starts with a space and contains spaces, so it can never extend a tag name
        // or an end-tag candidate
        for i in 0..c.long_tail {
            input.push(if i % 2 == 0 { b' ' } else { b'z' });
        }
    }
    let n = input.len();
    // reference: fresh rewriter, the prefix in ONE write
    let upto = n0.min(150);
    let mut single: Vec<usize> = Vec::with_capacity(upto + 2);
    single.push(0);
    for k in 1..=upto {
        let r = run(&[&input[..k]], &cfg);
        st.eval();
        if let Some(p) = r.panicked() {
            fail!("C09: panic on prefix of length {k}: {p}");
        }
        if r.failed_call == Some(0) {
            // strict is off: write() cannot fail here
            fail!("C09: write of prefix {k} failed: {:?}", r.result);
        }
        single.push(r.out_after_write[0]);
    }
    let single_full = {
        let r = run(&[&input[..]], &cfg);
        st.eval();
        r.out_after_write.first().copied().unwrap_or(0)
    };
    let single_at = |k: usize| -> Option<usize> { if k <= upto { Some(single[k]) } else if k == n { Some(single_full) } else { None } };
    // (a) schedule independence
    let mut scheds: Vec<Vec<usize>> = c.random.clone();
    scheds.push((1..upto.min(n)).collect());
    for cuts in &scheds {
        let chunks = split(&input, cuts);
        let r = run(&chunks, &cfg);
        st.eval();
        if let Some(p) = r.panicked() {
            fail!("C09: panic under schedule {cuts:?}: {p}");
        }
        let mut pos = 0;
        for (i, ch) in chunks.iter().enumerate() {
            pos += ch.len();
            let Some(out) = r.out_after_write.get(i) else { break };
            if let Some(exp) = single_at(pos) {
                ensure!(*out == exp, "C09: after writing {pos} bytes with schedule {cuts:?} {out} bytes were emitted, but a fresh rewriter given the same {pos} bytes in one write emits {exp} (pending differs: {} vs {})\n  input={:?}", pos - out, pos - exp, show(&input[..pos.min(200)]));
            }
        }
    }
    // (b)/(c) absolute bound from the layout
    let mut inside = false;
    if let Some(d) = &c.doc {
        for k in 1..=upto {
            let pending = k - single[k];
            let a = allowed(d, k, c.hk);
            if pending > a {
                fail!("C09: {pending} bytes held back after {k} bytes (allowed by the latency model: {a}) with handlers {:?}\n  prefix={:?}\n  held={:?}", c.hk, show(&input[..k]), show(&input[single[k]..k]));
            }
            inside |= d.toks.iter().any(|t| t.start < k && k < t.end && t.kind != TK::Text);
        }
        if c.long_tail > 0 {
            let pending = n - single_full;
            // the tail is plain text appended after the document: whatever the last token was,
            // at most a look-ahead may be pending, never kilobytes of text
            let unterminated = d.toks.last().is_some_and(|t| t.kind == TK::Start || t.text_type != "Data" && t.kind == TK::Text) ;
            if !unterminated || true {
                ensure!(pending <= 16, "C09: {pending} bytes of plain text withheld after a {}-byte document followed by {} text bytes, handlers {:?}\n  doc={:?}", n0, c.long_tail, c.hk, show(&c.input));
            }
        }
    }
    if c.doc.is_none() && c.long_tail > 0 && c.hk == HK::None && !crate::gens::soup::contains_ci(&c.input, "<svg") && !crate::gens::soup::contains_ci(&c.input, "<math") {
        // without handlers and outside foreign content, kilobytes of plain text after ANY prefix
        // can never be pending: at most an unfinished tag name / look-ahead made of the tail's
        // first bytes plus the prefix's last construct start
        let pending = n - single_full;
        let allowed = n0.min(64) + 16;
        ensure!(pending <= allowed, "C09: {pending} bytes withheld after a {n0}-byte prefix followed by {} plain text bytes with no handlers\n  prefix={:?}", c.long_tail, show(&c.input));
        st.label("soup_long_tail_checked");
    }
    st.label(&format!("handlers_{:?}", c.hk));
    st.label_if(c.doc.is_some(), "layout_bound_checked");
    st.label_if(c.long_tail > 0, "long_text_tail");
    st.label_if(inside, "prefix_ends_inside_construct");
    if inside || c.long_tail > 0 {
        let mut key = c.input.clone();
        key.push(c.hk as u8);
        if st.nontrivial(fnv(&key)) {
            st.sample(|| json!({"input": show(&c.input), "handlers": format!("{:?}", c.hk), "long_tail": c.long_tail}));
        }
    }
    Ok(())
}

impl Prop for C09 {
    fn id(&self) -> &'static str {
        "C09"
    }
    fn fixed_cases(&self) -> Vec<FixedCase> {
        use crate::gens::doc::{Ns, build};
        vec![FixedCase {
            name: "foreign-tag-buffered-whole",
            finding: Some("C09-foreign-tags-buffered"),
            what: "with no handlers, '<math><annotation-xml ' holds back the whole unfinished tag (beyond its name) because the tree builder simulation needs its attributes",
            run: Box::new(|st| {
                let d = build(&[(TK::Start, "<math>", "math", Ns::MathMl, ""), (TK::Start, "<annotation-xml encoding=\"text/html\">", "annotation-xml", Ns::MathMl, "")]);
                let input = d.bytes.clone();
                let r = run(&[&input[..22]], &cfg_for(HK::None));
                st.eval();
                let pending = 22 - r.out_after_write[0];
                if pending > 0 {
                    return Err(Failure::known("C09-foreign-tags-buffered", format!("C09: {pending} bytes held back after '<math><annotation-xml ' (tag name finished)")));
                }
                Ok(())
            }),
        }, FixedCase {
            name: "bogus-comment-after-end-tag-open",
            finding: Some("C09-bogus-comment-end-tag-open-unmark"),
            what: "with no handlers '</ ' (a bogus comment) followed by kilobytes of text must not be withheld until the next '>'",
            run: Box::new(|st| check_case(&Case { input: b"a</".to_vec(), doc: None, hk: HK::None, sparse: None, random: vec![], long_tail: 3000 }, st)),
        }, FixedCase {
            name: "escaped-script-end-tag-candidate",
            finding: Some("C09-escaped-end-tag-name-unmark"),
            what: "after '<script><!--</scrip-' (abandoned end tag candidate in escaped script data) following text must not be withheld",
            run: Box::new(|st| {
                let d = build(&[(TK::Start, "<script>", "script", Ns::Html, ""), (TK::Text, "<!--</scrip-", "<!--</scrip-", Ns::Html, "ScriptData")]);
                check_case(&Case { input: d.bytes.clone(), doc: Some(d), hk: HK::None, sparse: None, random: vec![], long_tail: 3000 }, st)
            }),
        }]
    }
    fn level(&self) -> &'static str {
        "exploration"
    }
    fn rule(&self) -> String {
        "case = (document from the layout-owning generator or byte soup, handler set none / non-matching selectors / observers, optional 3000-byte text tail); for EVERY prefix length k <= 150 a fresh rewriter is given the prefix in one write (reference) and (a) the byte-wise and 2 random schedules must have emitted exactly as much after the write ending at k; (b) no handlers: pending(k) <= R-latency(k) computed from the layout (0 after complete tokens/in text, '<'..name for an unfinished tag, short look-aheads); (c) observers: pending <= the single unfinished token. non-trivial = some prefix ends strictly inside a non-text construct, or a long text tail follows; distinct by hash(input, handler kind); evaluations counts rewriter runs".into()
    }
    fn plan(&self, tier: Tier) -> Plan {
        match tier {
            Tier::Quick => Plan { cases: 300_000, tape_len: 200 },
            Tier::Thorough => Plan { cases: 8_000_000, tape_len: 260 },
        }
    }
    fn run(&self, tape: &[u16], st: &mut Stats) -> PResult {
        check_case(&decode(tape), st)
    }
    fn describe(&self, tape: &[u16]) -> Value {
        let c = decode(tape);
        json!({"input": show(&c.input), "input_bytes": c.input, "handlers": format!("{:?}", c.hk), "sparse_handlers": c.sparse.as_ref().map(|x| x.to_json()), "random": c.random, "long_tail": c.long_tail, "layout": c.doc.map(|d| d.toks.iter().map(|t| format!("{:?} {}..{} {}", t.kind, t.start, t.end, t.text_type)).collect::<Vec<_>>())})
    }
}
