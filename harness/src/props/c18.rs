//! C18 Deterministic and isolated instances, also across threads.
use crate::engine::*;
use crate::gens::handlers::{mutators, observers};
use crate::gens::input::{InputOpts, input_in, pick_encoding};
use crate::gens::sched::sched_spec;
use crate::obs::*;
use crate::tape::{Tape, fnv};
use crate::{ensure, fail};
use lol_html::html_content::{ContentType, Element, TextChunk};
use lol_html::send::{HtmlRewriter as SendRewriter, Settings as SendSettings};
use lol_html::{Selector, element, text};
use serde_json::{Value, json};
use std::sync::atomic::{AtomicUsize, Ordering};
use std::sync::{Arc, Mutex};

pub struct C18;

#[derive(Clone)]
pub struct Inst {
    pub input: Vec<u8>,
    pub cuts: Vec<usize>,
    pub cfg: Cfg,
    /// yields / spins before each write
    pub pauses: Vec<u8>,
}

pub struct Case {
    pub insts: Vec<Inst>,
    /// selector strings parsed repeatedly on every thread: supported, valid CSS that lol-html
    /// refuses, and syntax errors
    pub parse_sels: Vec<&'static str>,
}

const PARSE_POOL: &[&str] = &[
    "div", "DIV.c#i[x=y i]", "p:nth-child(2n+1)", "span:first-child", "a > b c", ":not(p, .x)", "a + b", "a ~ b", ":last-child", "p:empty", ":only-child", "[*|x]", ":not(a > b)", "a::before", "div >", "", "p:nth-of-type(odd)", "li:nth-last-child(2)", "svg|a", "a:hover", "[x=]",
];

/// Parse result as a comparable string.
fn parse_outcome(s: &str) -> String {
    match s.parse::<Selector>() {
        Ok(_) => "Ok".into(),
        Err(e) => format!("Err({e:?})"),
    }
}

fn inst(t: &mut Tape<'_>) -> Inst {
    let enc = pick_encoding(t, true);
    let mut cfg = Cfg { encoding: enc, ..Cfg::default() };
    cfg.strict = t.chance(1, 3);
    cfg.graceful_handler = t.chance(1, 3);
    // per-instance parser options: instances with different options run side by side
    cfg.esi = t.chance(1, 3);
    cfg.adjust_charset = t.chance(1, 4);
    match t.below(3) {
        0 => observers(t, &mut cfg, 2, 1),
        _ => {
            observers(t, &mut cfg, 2, 1);
            mutators(t, &mut cfg);
        }
    }
    if t.chance(1, 5) {
        cfg.fail_at = Some(1 + t.below(6));
    }
    if t.chance(1, 6) {
        cfg.max_mem = t.below(200);
        cfg.prealloc = 0;
    }
    let spec = sched_spec(t);
    let pauses: Vec<u8> = (0..6).map(|_| t.below(8) as u8).collect();
    let mut input = input_in(t, &InputOpts { max_frags: 12, ..Default::default() }, enc);
    if t.chance(1, 3) {
        // constructs whose meaning depends on a per-instance option (ESI void elements, meta charset)
        let snippet: &[u8] = *t.pick(&[&b"<div><esi:include src=x><b>t</b></div>"[..], b"<p><esi:comment text=c><i>u</i></p>", b"<meta charset=windows-1252><p>x</p>", b"<ul><li><esi:include><li>v</ul>"]);
        let at = crate::tape::frac_to_pos(t.frac(), input.len());
        // only at a position that is not inside a multi-byte character
        if input.get(at).is_none_or(|b| *b < 0x80) && (at == 0 || input[at - 1] < 0x80) {
            input.splice(at..at, snippet.iter().copied());
        }
    }
    let cuts = spec.resolve(input.len());
    Inst { input, cuts, cfg, pauses }
}

pub fn decode(tape: &[u16]) -> Case {
    let mut t = Tape::new(tape);
    let distinct = t.range(1, 4);
    let base: Vec<Inst> = (0..distinct).map(|_| inst(&mut t)).collect();
    // 16 instances: copies of the distinct ones (equal configurations on purpose) in tape order
    let insts = (0..16).map(|i| base[(i + t.below(distinct)) % distinct].clone()).collect();
    let n = t.range(2, 5);
    let parse_sels = (0..n).map(|_| *t.pick(PARSE_POOL)).collect();
    Case { insts, parse_sels }
}

fn same(a: &RunOut, b: &RunOut) -> Result<(), String> {
    if a.kind() != b.kind() || a.failed_call != b.failed_call {
        return Err(format!("result {:?}@{:?} vs {:?}@{:?}", a.kind(), a.failed_call, b.kind(), b.failed_call));
    }
    if a.result != b.result {
        return Err(format!("error text differs: {:?} vs {:?}", a.result, b.result));
    }
    if a.sink != b.sink {
        return Err(format!("sink calls differ (output differs at byte {})", first_diff(&a.out, &b.out)));
    }
    if a.events != b.events {
        let k = a.events.iter().zip(b.events.iter()).position(|(x, y)| x != y).unwrap_or(a.events.len().min(b.events.len()));
        return Err(format!("events differ at #{k}: {:?} vs {:?}", a.events.get(k), b.events.get(k)));
    }
    Ok(())
}

/// Send rewriter with Send handlers, migrated to a fresh thread after every write.
fn run_migrating(input: &[u8], cuts: &[usize], migrate: bool) -> Result<(Vec<u8>, Vec<String>), String> {
    let out: Arc<Mutex<Vec<u8>>> = Default::default();
    let log: Arc<Mutex<Vec<String>>> = Default::default();
    let (o2, l2, l3) = (out.clone(), log.clone(), log.clone());
    let settings = SendSettings::new_send()
        .with_strict(false)
        .append_element_content_handler(element!("*", move |el: &mut Element<'_, '_, lol_html::send::SendHandlerTypes>| {
            l2.lock().unwrap().push(format!("E {} {:?}", el.tag_name(), el.attributes().iter().map(|a| (a.name(), a.value())).collect::<Vec<_>>()));
            el.set_attribute("data-n", &l2.lock().unwrap().len().to_string()).ok();
            el.before("<!--b-->", ContentType::Html);
            Ok(())
        }))
        .append_element_content_handler(text!("*", move |t: &mut TextChunk<'_>| {
            l3.lock().unwrap().push(format!("T {:?} {}", t.as_str(), t.last_in_text_node()));
            Ok(())
        }));
    let sink = move |c: &[u8]| o2.lock().unwrap().extend_from_slice(c);
    let mut rw: SendRewriter<'static, _> = SendRewriter::new(settings, sink);
    let chunks: Vec<Vec<u8>> = split(input, cuts).into_iter().map(|c| c.to_vec()).collect();
    for ch in chunks {
        if migrate {
            rw = std::thread::spawn(move || -> Result<_, String> {
                let mut r = rw;
                r.write(&ch).map_err(|e| e.to_string())?;
                Ok(r)
            })
            .join()
            .map_err(|_| "worker thread panicked".to_string())??;
        } else {
            rw.write(&ch).map_err(|e| e.to_string())?;
        }
    }
    if migrate {
        std::thread::spawn(move || rw.end().map_err(|e| e.to_string())).join().map_err(|_| "worker thread panicked".to_string())??;
    } else {
        rw.end().map_err(|e| e.to_string())?;
    }
    let o = out.lock().unwrap().clone();
    let l = log.lock().unwrap().clone();
    Ok((o, l))
}

pub fn check_case(c: &Case, st: &mut Stats) -> PResult {
    // sequential reference runs (and repetition determinism)
    let seq: Vec<RunOut> = c.insts.iter().map(|i| run(&split(&i.input, &i.cuts), &i.cfg)).collect();
    st.evals_add(seq.len() as u64);
    for (k, i) in c.insts.iter().enumerate().take(4) {
        let again = run(&split(&i.input, &i.cuts), &i.cfg);
        st.eval();
        same(&seq[k], &again).map_err(|e| Failure::new(format!("C18: repeating the same rewrite gave a different result: {e}")))?;
    }
    // selector parsing is a function of the string: the outcome on a brand-new thread is the
    // reference for repeated parses on this (long-lived) thread and on the 16 worker threads
    let sels = c.parse_sels.clone();
    let parse_ref: Vec<String> = std::thread::spawn(move || sels.iter().map(|s| parse_outcome(s)).collect()).join().map_err(|_| Failure::new("C18: selector parsing panicked on a fresh thread".to_string()))?;
    for round in 0..2 {
        for (s, want) in c.parse_sels.iter().zip(parse_ref.iter()) {
            let got = guard(|| parse_outcome(s)).unwrap_or_else(|p| format!("panic: {p}"));
            ensure!(got == *want, "C18: parsing selector {s:?} on a long-lived thread (round {round}) gave {got}, on a fresh thread {want}: the outcome depends on the thread's history");
        }
    }
    st.label_if(parse_ref.iter().any(|r| r.starts_with("Err")), "refused_selector_parsed_repeatedly");
    let parse_ref = &parse_ref;
    // 16 rewriters on 16 threads with yields/spins between writes
    let step = AtomicUsize::new(0);
    let barrier = std::sync::Barrier::new(c.insts.len());
    let results: Vec<Result<(String, usize, usize), String>> = std::thread::scope(|s| {
        let hs: Vec<_> = c
            .insts
            .iter()
            .zip(seq.iter())
            .map(|(i, reference)| {
                let step = &step;
                let barrier = &barrier;
                s.spawn(move || -> Result<(String, usize, usize), String> {
                    barrier.wait();
                    let start = step.fetch_add(1, Ordering::SeqCst);
                    let chunks = split(&i.input, &i.cuts);
                    let r = run_with(&chunks, &i.cfg, false, &mut |w| {
                        step.fetch_add(1, Ordering::SeqCst);
                        for _ in 0..i.pauses[w % i.pauses.len()] {
                            std::thread::yield_now();
                        }
                    });
                    // concurrent selector parsing (twice per thread)
                    for s in &i.cfg.sels {
                        let (a, b) = (parse_outcome(&s.sel), parse_outcome(&s.sel));
                        if a != b {
                            return Err(format!("parsing selector {:?} twice on one thread gave {a} then {b}", s.sel));
                        }
                    }
                    for _ in 0..2 {
                        for (s, want) in c.parse_sels.iter().zip(parse_ref.iter()) {
                            let got = parse_outcome(s);
                            if got != *want {
                                return Err(format!("parsing selector {s:?} concurrently gave {got}, alone on a fresh thread {want}"));
                            }
                        }
                    }
                    let end = step.fetch_add(1, Ordering::SeqCst);
                    same(reference, &r)?;
                    Ok((r.kind().to_string(), start, end))
                })
            })
            .collect();
        hs.into_iter().map(|h| h.join().unwrap_or_else(|_| Err("thread panicked".into()))).collect()
    });
    st.evals_add(16);
    let mut spans = vec![];
    for (k, r) in results.into_iter().enumerate() {
        match r {
            Ok((_, a, b)) => spans.push((a, b)),
            Err(e) => fail!("C18: instance #{k} run concurrently with 15 others differs from its own sequential run: {e}\n  input={:?}\n  cfg={}", show(&c.insts[k].input), c.insts[k].cfg.to_json()),
        }
    }
    let overlap = spans.iter().enumerate().any(|(i, a)| spans.iter().enumerate().any(|(j, b)| i != j && a.0 < b.1 && b.0 < a.1 && c.insts[i].input != c.insts[j].input));
    // Send rewriter migrated between threads after every write
    let i0 = &c.insts[0];
    if i0.cuts.len() <= 8 {
        let a = run_migrating(&i0.input, &i0.cuts, false);
        let b = run_migrating(&i0.input, &i0.cuts, true);
        st.evals_add(2);
        ensure!(a == b, "C18: a send::HtmlRewriter moved to another thread after every write differs from the same rewrite on one thread\n  input={:?}", show(&i0.input));
        st.label("send_rewriter_migrated");
    }
    st.label_if(overlap, "instances_overlapped_in_time");
    if overlap {
        let mut key = vec![];
        for i in &c.insts {
            key.extend_from_slice(&i.input);
        }
        if st.nontrivial(fnv(&key)) {
            st.sample(|| json!({"instances": c.insts.iter().take(3).map(|i| json!({"input": show(&i.input), "cuts": i.cuts, "cfg": i.cfg.to_json()})).collect::<Vec<_>>(), "threads": 16}));
        }
    }
    Ok(())
}

impl Prop for C18 {
    fn id(&self) -> &'static str {
        "C18"
    }
    fn rule(&self) -> String {
        "case = batch of 16 rewriter instances drawn from 1-4 distinct (input, encoding, schedule, observer/mutating configuration incl. injected handler faults and tiny memory limits) - equal and different configurations mixed; each instance is run sequentially (reference, and repeated), then all 16 concurrently on 16 threads with tape-chosen yield counts before every write plus concurrent and repeated parsing of selector strings (supported, valid-CSS-but-refused, syntax errors: the outcome must equal that on a brand-new thread), and one instance as a send::HtmlRewriter moved to a fresh thread after every write; oracle: every concurrent/migrated instance's sink calls, event log and error equal its own sequential run. non-trivial = at least two instances with different inputs overlapped in time (start/end stamps from an atomic step counter); distinct by hash of the batch's inputs".into()
    }
    fn assumptions(&self) -> Vec<String> {
        vec!["the OS schedule is sampled, not controlled: this detects shared mutable state (any overlap exposes it), not a defect needing one particular interleaving (DESIGN section 7)".into(), "the C API's thread-local last error is checked by C17's harness".into()]
    }
    fn plan(&self, tier: Tier) -> Plan {
        match tier {
            Tier::Quick => Plan { cases: 2_000, tape_len: 600 },
            Tier::Thorough => Plan { cases: 40_000, tape_len: 700 },
        }
    }
    fn run(&self, tape: &[u16], st: &mut Stats) -> PResult {
        check_case(&decode(tape), st)
    }
    fn describe(&self, tape: &[u16]) -> Value {
        let c = decode(tape);
        json!({"parsed_selectors": c.parse_sels, "instances": c.insts.iter().map(|i| json!({"input": show(&i.input), "cuts": i.cuts, "cfg": i.cfg.to_json(), "pauses": i.pauses})).collect::<Vec<_>>()})
    }
}
