//! C02 Chunk-boundary invariance (metamorphic: every schedule vs the single-write run).
use crate::engine::*;
use crate::gens::handlers::{mutators, observers};
use crate::gens::input::{InputOpts, cut_is_interesting, input_in};
use crate::gens::soup::has_markup;
use crate::obs::*;
use crate::tape::{Tape, fnv};
use crate::{ensure, fail};
use lol_html::HtmlRewriter;
use serde_json::{Value, json};

pub struct C02;

pub struct Case {
    pub input: Vec<u8>,
    pub cfg: Cfg,
    pub random: Vec<Vec<usize>>,
}

pub fn decode(tape: &[u16]) -> Case {
    let mut t = Tape::new(tape);
    let enc = crate::gens::input::pick_encoding(&mut t, true);
    let mut cfg = Cfg { encoding: enc, ..Cfg::default() };
    cfg.strict = t.chance(1, 3);
    cfg.prealloc = *t.pick(&[0usize, 0, 1, 64, 1024]);
    cfg.esi = t.chance(1, 4);
    cfg.adjust_charset = t.chance(1, 6);
    match t.weighted(&[1, 4, 4]) {
        0 => {}
        1 => observers(&mut t, &mut cfg, 3, 2),
        _ => {
            observers(&mut t, &mut cfg, 2, 1);
            mutators(&mut t, &mut cfg);
        }
    }
    let specs: Vec<Vec<u16>> = (0..4).map(|_| { let k = t.range(0, 6); (0..k).map(|_| t.frac()).collect() }).collect();
    let input = input_in(&mut t, &InputOpts { max_frags: 14, ..Default::default() }, enc);
    let input = crate::gens::input::maybe_long(&mut t, input, 25);
    let random = specs.iter().map(|f| { let mut v: Vec<usize> = f.iter().map(|x| crate::tape::frac_to_pos(*x, input.len())).collect(); v.sort(); v }).collect();
    Case { input, cfg, random }
}

pub fn compare(base: &RunOut, base_norm: &Result<Vec<Ev>, String>, r: &RunOut, what: &str) -> PResult {
    if let Some(p) = r.panicked() {
        fail!("C02: panic under schedule {what}: {p}");
    }
    ensure!(r.kind() == base.kind(), "C02: result kind differs: single write => {}, schedule {what} => {}", base.kind(), r.kind());
    if base.result.is_err() {
        // a failed run has no "final output"; what was emitted is schedule dependent but both
        // are prefixes of the same complete output
        ensure!(r.out.starts_with(&base.out) || base.out.starts_with(&r.out), "C02: failed runs emitted diverging prefixes under schedule {what} (diff at {})", first_diff(&r.out, &base.out));
        return Ok(());
    }
    if r.out != base.out {
        let d = first_diff(&r.out, &base.out);
        fail!(
            "C02: output differs under schedule {what} at byte {d}: single={:?} sched={:?}",
            show(&base.out[d.saturating_sub(10)..(d + 20).min(base.out.len())]),
            show(&r.out[d.saturating_sub(10)..(d + 20).min(r.out.len())])
        );
    }
    if base.result.is_ok() {
        let n = norm(&r.events);
        match (base_norm, &n) {
            (Ok(a), Ok(b)) => {
                if a != b {
                    let i = a.iter().zip(b.iter()).position(|(x, y)| x != y).unwrap_or(a.len().min(b.len()));
                    fail!("C02: handler-visible events differ under schedule {what} at event #{i}: single={:?} sched={:?}", a.get(i), b.get(i));
                }
            }
            (_, Err(e)) => fail!("C02: text chunk protocol broken under schedule {what}: {e}"),
            (Err(e), _) => fail!("C02: text chunk protocol broken in the single-write run: {e}"),
        }
    }
    Ok(())
}

pub fn check_case(c: &Case, st: &mut Stats) -> PResult {
    let base = run(&[&c.input], &c.cfg);
    st.eval();
    if let Some(p) = base.panicked() {
        fail!("C02: panic in single-write run: {p}");
    }
    let base_norm = norm(&base.events);
    let len = c.input.len();
    let mut interesting = false;
    if len <= 120 {
        for p in 0..=len {
            let r = run(&split(&c.input, &[p]), &c.cfg);
            st.eval();
            compare(&base, &base_norm, &r, &format!("1-cut [{p}]"))?;
            interesting |= cut_is_interesting(&c.input, p);
        }
    }
    if len <= 24 {
        for p in 0..=len {
            for q in p..=len {
                let r = run(&split(&c.input, &[p, q]), &c.cfg);
                st.eval();
                compare(&base, &base_norm, &r, &format!("2-cut [{p},{q}]"))?;
            }
        }
        st.label("all_2cuts");
    }
    if len >= 2 {
        let cuts: Vec<usize> = (1..len).collect();
        let r = run(&split(&c.input, &cuts), &c.cfg);
        st.eval();
        compare(&base, &base_norm, &r, "byte-wise")?;
    }
    for cuts in &c.random {
        let r = run(&split(&c.input, cuts), &c.cfg);
        st.eval();
        compare(&base, &base_norm, &r, &format!("{cuts:?}"))?;
        interesting |= cuts.iter().any(|p| cut_is_interesting(&c.input, *p));
        st.label_if(cuts.windows(2).any(|w| w[0] == w[1]) || cuts.first() == Some(&0), "empty_write");
    }
    // the one-shot entry point == a single write (+ end) for UTF-8 strings: with the full
    // `Settings`, and - when the configuration uses no option `RewriteStrSettings` lacks - with a
    // `RewriteStrSettings` carrying the same handlers, `strict` and `enable_esi_tags`
    if c.cfg.encoding == encoding_rs::UTF_8 && !c.cfg.adjust_charset {
        if let Ok(s) = std::str::from_utf8(&c.input) {
            let plain_options = !c.cfg.graceful_handler && !c.cfg.graceful_mem && c.cfg.max_mem == usize::MAX;
            for via in [false, true] {
                if via && !plain_options {
                    continue;
                }
                let what = if via { "rewrite_str(RewriteStrSettings)" } else { "rewrite_str(Settings)" };
                let (res, out, events) = run_str_via(s, &c.cfg, via);
                st.eval();
                match res {
                    Err(ErrKind::Panic(p)) => fail!("C02: {what} panicked: {p}"),
                    Ok(()) => {
                        ensure!(base.result.is_ok(), "C02: {what} Ok but single write gave {}", base.kind());
                        if std::str::from_utf8(&base.out).is_ok() {
                            ensure!(out == base.out, "C02: {what} output differs from single write: {:?} vs {:?}", show(&out), show(&base.out));
                        }
                        if let (Ok(a), Ok(b)) = (norm(&events), &base_norm) {
                            ensure!(a == *b, "C02: handler-visible events of {what} differ from a single write");
                        }
                        st.label(if via { "rewrite_str_via_str_settings" } else { "rewrite_str" });
                    }
                    Err(e) => ensure!(base.kind() == e.short(), "C02: {what} gave {} but single write gave {}", e.short(), base.kind()),
                }
            }
        }
    }
    st.label_if(c.cfg.mutates(), "mutating");
    st.label_if(interesting, "cut_inside_construct");
    st.label_if(c.cfg.encoding != encoding_rs::UTF_8, "non_utf8");
    st.label_if(!base.result.is_ok(), "base_err");
    if has_markup(&c.input) && interesting && len >= 2 {
        let mut key = c.input.clone();
        key.extend(format!("{:?}", c.cfg.to_json()).as_bytes());
        if st.nontrivial(fnv(&key)) {
            st.sample(|| json!({"input": show(&c.input), "cfg": c.cfg.to_json(), "random_schedules": c.random}));
        }
    }
    Ok(())
}

impl Prop for C02 {
    fn id(&self) -> &'static str {
        "C02"
    }
    fn fixed_cases(&self) -> Vec<FixedCase> {
        vec![
            FixedCase {
                name: "valueless-attr-loc",
                finding: Some("C14-valueless-attr-loc"),
                what: "value-less attribute source locations must not depend on the write schedule",
                run: Box::new(|st| {
                    let mut cfg = Cfg::default();
                    cfg.sels.push(SelSpec { sel: "*".into(), el: true, ..Default::default() });
                    check_case(&Case { input: b"aa<a b=c d e='f' g=\"h\" B=2>".to_vec(), cfg, random: vec![] }, st)
                }),
            },
            FixedCase {
                name: "script-missing-attr-value-panic",
                finding: Some("C03-missing-attr-value-data-state"),
                what: "'<script a= >' followed by markup must not trip an internal assertion",
                run: Box::new(|st| {
                    let mut cfg = Cfg::default();
                    cfg.sels.push(SelSpec { sel: "div".into(), ops: vec![ScriptOp { kind: Kind::Element, nth: Some(0), every_chunk: false, op: Op::Before("X".into(), CT::Html) }], ..Default::default() });
                    check_case(&Case { input: b"aa<script a= >a<svg></svg>a".to_vec(), cfg, random: vec![] }, st)
                }),
            },
        ]
    }
    fn rule(&self) -> String {
        "case = (input, encoding, observer or mutating handler set); executed under the single-write schedule and EVERY 1-cut (len<=120), every 2-cut (len<=24), byte-wise, 4 random k-cut schedules with empty writes, and rewrite_str; oracle: same result kind, same sink bytes, same normalised event log incl. source ranges and text-chunk protocol. non-trivial = input has markup and some cut lies inside a <...> construct or multi-byte char; distinct by hash(input,cfg); evaluations counts rewriter runs".into()
    }
    fn assumptions(&self) -> Vec<String> {
        vec!["mutation scripts depend on token content only (text ops on the last_in_text_node chunk or remove() on all chunks)".into()]
    }
    fn plan(&self, tier: Tier) -> Plan {
        match tier {
            Tier::Quick => Plan { cases: 300_000, tape_len: 140 },
            Tier::Thorough => Plan { cases: 8_000_000, tape_len: 200 },
        }
    }
    fn run(&self, tape: &[u16], st: &mut Stats) -> PResult {
        check_case(&decode(tape), st)
    }
    fn describe(&self, tape: &[u16]) -> Value {
        let c = decode(tape);
        json!({"input": show(&c.input), "input_bytes": c.input, "cfg": c.cfg.to_json(), "random_schedules": c.random})
    }
}

#[allow(dead_code)]
fn _t(_: HtmlRewriter<'_, LogSink>) {}
