//! C06 Handler independence: (H) vs (H ∪ O) on the same input and schedule.
use crate::engine::*;
use crate::gens::handlers::{mutators, observers};
use crate::gens::input::{InputOpts, input_in};
use crate::gens::sched::sched_spec;
use crate::gens::soup::has_text_mode_or_foreign;
use crate::obs::*;
use crate::tape::{Tape, fnv};
use crate::{ensure, fail};
use serde_json::{Value, json};

pub struct C06;

pub struct Case {
    pub input: Vec<u8>,
    pub cuts: Vec<usize>,
    pub h: Cfg,
    pub observers: Vec<Cfg>,
}

pub fn decode(tape: &[u16]) -> Case {
    let mut t = Tape::new(tape);
    // one case in three: a structured document (nested islands, integration points, CDATA,
    // breakout tags, raw-text elements are frequent there and rare in soup), UTF-8 only
    let use_doc = t.chance(1, 3);
    let enc = if use_doc { encoding_rs::UTF_8 } else { crate::gens::input::pick_encoding(&mut t, true) };
    let mut h = Cfg { encoding: enc, ..Cfg::default() };
    h.strict = t.chance(1, 4);
    h.esi = t.chance(1, 4);
    match t.weighted(&[1, 4, 3]) {
        0 => {}
        1 => observers(&mut t, &mut h, 3, 1),
        _ => {
            observers(&mut t, &mut h, 2, 0);
            mutators(&mut t, &mut h);
        }
    }
    let n_o = t.range(1, 3);
    let mut obs = vec![];
    for _ in 0..n_o {
        let mut o = h.clone();
        let (ns, nd) = (o.sels.len(), o.docs.len());
        observers(&mut t, &mut o, 3, 2);
        if o.sels.len() == ns && o.docs.len() == nd {
            o.docs.push(DocSpec { doctype: true, comments: true, text: true, end: true, ops: vec![] });
        }
        obs.push(o);
    }
    let spec = sched_spec(&mut t);
    let input = if use_doc {
        crate::gens::doc::doc(&mut t, &crate::gens::doc::DocOpts { max_items: 10, bogus_cdata_in_ip: true, ..Default::default() }).bytes
    } else {
        let input = input_in(&mut t, &InputOpts { max_frags: 18, safe_only: true, ..Default::default() }, enc);
        crate::gens::input::maybe_long(&mut t, input, 12)
    };
    let cuts = spec.resolve(input.len());
    Case { input, cuts, h, observers: obs }
}

fn own<'a>(events: &'a [Ev], h: &Cfg) -> Vec<Ev> {
    let (ns, nd) = (h.sels.len(), h.docs.len());
    events
        .iter()
        .filter(|e| {
            let id = e.handler().split('.').next().unwrap_or("");
            let (k, n) = id.split_at(1);
            let n: usize = n.parse().unwrap_or(usize::MAX);
            (k == "s" && n < ns) || (k == "d" && n < nd)
        })
        .cloned()
        .collect()
}

/// Signature of the open finding C06-strict-refusal-of-truncated-tag: the two handler sets only
/// disagree about a start tag the input ends in - once that tag is completed (`>`, or a closing
/// quote and `>`), both refuse the document.
fn refusal_is_only_premature(c: &Case, o: &Cfg, st: &mut Stats) -> bool {
    [&b">"[..], b"\">", b"'>"].iter().any(|suffix| {
        let mut completed = c.input.clone();
        completed.extend_from_slice(suffix);
        st.evals_add(2);
        run(&[&completed[..]], &c.h).kind() == "ambiguity" && run(&[&completed[..]], o).kind() == "ambiguity"
    })
}

pub fn check_case(c: &Case, st: &mut Stats) -> PResult {
    let chunks = split(&c.input, &c.cuts);
    let base = run(&chunks, &c.h);
    st.eval();
    if let Some(p) = base.panicked() {
        fail!("C06: panic with handler set H: {p}");
    }
    let base_norm = if base.result.is_ok() { norm(&base.events).map_err(|e| Failure::new(format!("C06: text protocol (H): {e}")))? } else { vec![] };
    for (i, o) in c.observers.iter().enumerate() {
        let r = run(&chunks, o);
        st.eval();
        if let Some(p) = r.panicked() {
            fail!("C06: panic with handler set H+O{i}: {p}");
        }
        if r.kind() != base.kind() {
            if c.h.strict && base.kind() == "ambiguity" && r.kind() == "ok" && refusal_is_only_premature(c, o, st) {
                return Err(Failure::known("C06-strict-refusal-of-truncated-tag", format!("C06: strict mode refuses the document with handler set H but not with H+O{i}: the input ends inside an unfinished text-mode start tag, which the tag scanner judges at the end of the tag name and the lexer only at '>'")));
            }
            fail!("C06: result kind differs: H => {}, H+O{i} => {}", base.kind(), r.kind());
        }
        if base.result.is_err() {
            ensure!(r.out.starts_with(&base.out) || base.out.starts_with(&r.out), "C06: failed runs emitted diverging prefixes (H vs H+O{i})");
            continue;
        }
        if r.out != base.out {
            let d = first_diff(&r.out, &base.out);
            fail!(
                "C06: sink bytes differ when observers O{i} are added, at byte {d}: H={:?} H+O={:?}",
                show(&base.out[d.saturating_sub(10)..(d + 20).min(base.out.len())]),
                show(&r.out[d.saturating_sub(10)..(d + 20).min(r.out.len())])
            );
        }
        let mine = norm(&own(&r.events, &c.h)).map_err(|e| Failure::new(format!("C06: text protocol (H+O{i}): {e}")))?;
        if mine != base_norm {
            let k = mine.iter().zip(base_norm.iter()).position(|(x, y)| x != y).unwrap_or(mine.len().min(base_norm.len()));
            fail!("C06: events seen by H's handlers change when observers O{i} are added, at event #{k}: H={:?} H+O={:?}", base_norm.get(k), mine.get(k));
        }
    }
    let sparse = !c.h.docs.iter().any(|d| d.text || d.comments || d.doctype || d.ops.iter().any(|o| o.kind != Kind::DocEnd)) && !c.h.sels.iter().any(|s| s.sel == "*");
    st.label_if(sparse, "H_sparse_or_empty");
    st.label_if(c.h.mutates(), "H_mutates");
    st.label_if(has_text_mode_or_foreign(&c.input), "text_mode_or_foreign");
    st.label_if(base.result.is_err(), "base_err");
    if sparse && has_text_mode_or_foreign(&c.input) && base.result.is_ok() {
        let mut key = c.input.clone();
        key.extend(format!("{:?}{:?}", c.h.to_json(), c.observers.iter().map(|o| o.to_json()).collect::<Vec<_>>()).as_bytes());
        if st.nontrivial(fnv(&key)) {
            st.sample(|| json!({"input": show(&c.input), "cuts": c.cuts, "H": c.h.to_json(), "H+O": c.observers.iter().map(|o| o.to_json()).collect::<Vec<_>>()}));
        }
    }
    Ok(())
}

impl Prop for C06 {
    fn id(&self) -> &'static str {
        "C06"
    }
    fn rule(&self) -> String {
        "case = (input [2/3 soup in one of 36 encodings, 1/3 structured UTF-8 document with nested foreign islands, integration points, CDATA, breakout tags, raw text], schedule, handler set H (observers and/or mutators), 1-3 supersets H+O with O observer-only); oracle: sink bytes and the normalised events of H's handlers identical in H and every H+O. non-trivial = H leaves the parser in tag-scan mode for some tags (no document-level token handlers, no '*' selector) while O forces lexing, AND the input has a text-mode element, foreign content or CDATA; distinct by hash(input,H,O)".into()
    }
    fn assumptions(&self) -> Vec<String> {
        vec!["inputs are valid in their encoding and use only characters without ASCII trail bytes, so that adding a text observer cannot legitimately normalise bytes (the C01 exception)".into()]
    }
    fn plan(&self, tier: Tier) -> Plan {
        match tier {
            Tier::Quick => Plan { cases: 3_000_000, tape_len: 170 },
            Tier::Thorough => Plan { cases: 40_000_000, tape_len: 240 },
        }
    }
    fn run(&self, tape: &[u16], st: &mut Stats) -> PResult {
        check_case(&decode(tape), st)
    }
    fn fixed_cases(&self) -> Vec<FixedCase> {
        vec![FixedCase {
            name: "strict-refusal-of-truncated-tag",
            finding: Some("C06-strict-refusal-of-truncated-tag"),
            what: "strict mode, '<frameset><script ' (input ends inside the start tag): with only a `*` element handler the run fails with ParsingAmbiguity, with a document text observer added it succeeds",
            run: Box::new(|st| {
                let h = Cfg { strict: true, sels: vec![SelSpec { sel: "*".into(), el: true, ..Default::default() }], ..Cfg::default() };
                let mut o = h.clone();
                o.docs.push(DocSpec { text: true, ..Default::default() });
                check_case(&Case { input: b"<frameset><script ".to_vec(), cuts: vec![], h, observers: vec![o] }, st)
            }),
        }]
    }
    fn describe(&self, tape: &[u16]) -> Value {
        let c = decode(tape);
        json!({"input": show(&c.input), "input_bytes": c.input, "cuts": c.cuts, "H": c.h.to_json(), "H+O": c.observers.iter().map(|o| o.to_json()).collect::<Vec<_>>()})
    }
}
