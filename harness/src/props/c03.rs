//! C03 Strict-mode tokenization equals the WHATWG parser's (html5ever tokenizer driven by a
//! real tree builder); ambiguity is refused. Needs lol_html's `_integration_test` surface.
use crate::engine::*;
use crate::gens::doc::{DocOpts, doc};
use crate::gens::sched::sched_spec;
use crate::gens::soup::{HTML_FRAGS, TEXT_MODE_TAGS, contains_ci};
use crate::model::h5::{HT, tokens};
use crate::obs::{show, split};
use crate::tape::{Tape, fnv};
use crate::{ensure, fail};
use lol_html::errors::RewritingError;
use lol_html::html_content::DocumentEnd;
use lol_html::{AsciiCompatibleEncoding, LocalName, Namespace, SharedMemoryLimiter, StartTagHandlingResult, Token, TokenCaptureFlags, TransformController, TransformStream, TransformStreamSettings};
use serde_json::{Value, json};

pub struct C03;

pub struct Case {
    pub input: String,
    pub cuts: Vec<usize>,
    /// 0 = all, 1..=5 single kinds
    pub capture: u8,
    pub foreign: bool,
}

fn lolv_frac(f: u16, len: usize) -> usize {
    crate::tape::frac_to_pos(f, len)
}

/// WHATWG preprocessing applied to what lol-html (which does not preprocess) reports:
/// CRLF / CR -> LF everywhere; NUL -> U+FFFD except in data-state and CDATA text.
fn pre(s: &str, keep_nul: bool) -> String {
    let s = s.replace("\r\n", "\n").replace('\r', "\n");
    if keep_nul { s } else { s.replace('\0', "\u{fffd}") }
}

fn preprocess(v: Vec<T>) -> Vec<T> {
    v.into_iter()
        .map(|t| match t {
            T::Text(s, m) => {
                let keep = m == "Data" || m == "CDataSection";
                T::Text(pre(&s, keep), m)
            }
            T::Comment(c) => T::Comment(pre(&c, false)),
            T::Start { name, attrs, sc } => {
                let mut out: Vec<(String, String)> = vec![];
                for (n, v) in attrs {
                    let n = pre(&n, false);
                    if !out.iter().any(|(x, _)| *x == n) {
                        out.push((n, pre(&v, false)));
                    }
                }
                T::Start { name: pre(&name, false), attrs: out, sc }
            }
            T::End(n) => T::End(pre(&n, false)),
            T::Doctype { name, pid, sid, fq } => T::Doctype { name: name.map(|x| pre(&x, false)), pid: pid.map(|x| pre(&x, false)), sid: sid.map(|x| pre(&x, false)), fq },
        })
        .collect()
}

fn amp_safe(s: String) -> String {
    // '&' only where it cannot start a character reference
    let b: Vec<char> = s.chars().collect();
    let mut out = String::with_capacity(s.len() + 4);
    for (i, c) in b.iter().enumerate() {
        out.push(*c);
        if *c == '&' && b.get(i + 1).is_some_and(|n| n.is_ascii_alphanumeric() || *n == '#') {
            out.push(' ');
        }
    }
    out
}

pub fn decode(tape: &[u16]) -> Case {
    let mut t = Tape::new(tape);
    let capture = *t.pick(&[0u8, 0, 0, 1, 2, 3, 4, 5]);
    let spec = sched_spec(&mut t);
    let foreign = t.chance(2, 5);
    let input = if foreign {
        let d = doc(&mut t, &DocOpts { amp_safe: true, no_annotation_xml: true, no_esi: true, deep_wrappers: false, breakouts: false, max_items: 12, ..DocOpts::default() });
        String::from_utf8(d.bytes).expect("doc is UTF-8")
    } else {
        // G1: soup over the adversarial alphabet without svg/math
        let n = t.range(0, 26);
        let mut s = String::new();
        for _ in 0..n {
            if t.chance(1, 12) {
                let m = t.range(1, 5);
                for _ in 0..m {
                    s.push(*t.pick(b"<>/!-=\"' ][?abcsTx1\n\t") as char);
                }
            } else {
                s.push_str(*t.pick(HTML_FRAGS));
            }
        }
        let mut s = amp_safe(s.replace('\r', "\n").replace('\0', "0"));
        // WHATWG input preprocessing: CR / CRLF / NUL sprinkled into 1/6 of the soups
        if t.chance(1, 6) {
            let k = t.range(1, 4);
            for _ in 0..k {
                let mut at = lolv_frac(t.frac(), s.len());
                while !s.is_char_boundary(at) {
                    at -= 1;
                }
                s.insert_str(at, *t.pick(&["\r", "\r\n", "\0", "\r\r", "\n\r"]));
            }
        }
        s
    };
    let cuts = spec.resolve(input.len());
    Case { input, cuts, capture, foreign }
}

#[derive(Debug, PartialEq, Eq, Clone)]
pub enum T {
    Text(String, String),
    Comment(String),
    Start { name: String, attrs: Vec<(String, String)>, sc: bool },
    End(String),
    Doctype { name: Option<String>, pid: Option<String>, sid: Option<String>, fq: bool },
}

struct Ctl<'h> {
    h: Box<dyn FnMut(&mut Token<'_>) + 'h>,
    flags: TokenCaptureFlags,
}

impl TransformController for Ctl<'_> {
    fn initial_capture_flags(&self) -> TokenCaptureFlags {
        self.flags
    }
    fn handle_start_tag(&mut self, _: LocalName<'_>, _: Namespace) -> StartTagHandlingResult<Self> {
        Ok(self.flags)
    }
    fn handle_end_tag(&mut self, _: LocalName<'_>) -> TokenCaptureFlags {
        self.flags
    }
    fn handle_token(&mut self, t: &mut Token<'_>) -> Result<(), RewritingError> {
        (self.h)(t);
        Ok(())
    }
    fn handle_end(&mut self, _: &mut DocumentEnd<'_>) -> Result<(), RewritingError> {
        Ok(())
    }
    fn should_emit_content(&self) -> bool {
        true
    }
}

fn flags_for(capture: u8) -> TokenCaptureFlags {
    match capture {
        1 => TokenCaptureFlags::NEXT_START_TAG,
        2 => TokenCaptureFlags::NEXT_END_TAG,
        3 => TokenCaptureFlags::TEXT,
        4 => TokenCaptureFlags::COMMENTS,
        5 => TokenCaptureFlags::DOCTYPES,
        _ => TokenCaptureFlags::all(),
    }
}

pub fn lol(input: &[u8], cuts: &[usize], strict: bool, capture: u8) -> Result<Result<Vec<T>, String>, String> {
    guard(|| {
        let mut toks: Vec<T> = vec![];
        let mut pend: Option<(String, String)> = None;
        let res = {
            let h = |t: &mut Token<'_>| match t {
                Token::TextChunk(c) => {
                    let tt = format!("{:?}", c.text_type());
                    match &mut pend {
                        Some((s, _)) => s.push_str(c.as_str()),
                        None => pend = Some((c.as_str().to_string(), tt)),
                    }
                    if c.last_in_text_node() {
                        if let Some((s, tt)) = pend.take() {
                            if !s.is_empty() {
                                toks.push(T::Text(s, tt));
                            }
                        }
                    }
                }
                Token::Comment(c) => toks.push(T::Comment(c.text())),
                Token::StartTag(s) => {
                    let mut attrs: Vec<(String, String)> = vec![];
                    for a in s.attributes() {
                        if !attrs.iter().any(|(n, _)| *n == a.name()) {
                            attrs.push((a.name(), a.value()));
                        }
                    }
                    toks.push(T::Start { name: s.name(), attrs, sc: s.self_closing() })
                }
                Token::EndTag(e) => toks.push(T::End(e.name())),
                Token::Doctype(d) => toks.push(T::Doctype { name: d.name(), pid: d.public_id(), sid: d.system_id(), fq: d.force_quirks() }),
            };
            let mut ts = TransformStream::new(TransformStreamSettings {
                transform_controller: Ctl { h: Box::new(h), flags: flags_for(capture) },
                output_sink: |_: &[u8]| {},
                preallocated_parsing_buffer_size: 0,
                memory_limiter: SharedMemoryLimiter::new(usize::MAX),
                encoding: AsciiCompatibleEncoding::utf_8(),
                next_encoding: Default::default(),
                strict,
                graceful_bail_out_on_memory_limit_exceeded: false,
                graceful_bail_out_on_content_handler_error: false,
            });
            let mut r = Ok(());
            for c in split(input, cuts) {
                r = ts.write(c);
                if r.is_err() {
                    break;
                }
            }
            if r.is_ok() {
                r = ts.end();
            }
            r
        };
        match res {
            Ok(()) => Ok(toks),
            Err(RewritingError::ParsingAmbiguity(_)) => Err("ambiguity".to_string()),
            Err(e) => Err(format!("other: {e}")),
        }
    })
}

fn conv(h: &[HT]) -> Vec<T> {
    h.iter()
        .map(|t| match t {
            HT::Text(s, m) => T::Text(s.clone(), m.to_string()),
            HT::Comment(c) => T::Comment(c.clone()),
            HT::Start { name, attrs, sc } => T::Start { name: name.clone(), attrs: attrs.clone(), sc: *sc },
            HT::End(n) => T::End(n.clone()),
            HT::Doctype { name, pid, sid, fq } => T::Doctype { name: name.clone(), pid: pid.clone(), sid: sid.clone(), fq: *fq },
        })
        .collect()
}

fn keep(t: &T, capture: u8) -> bool {
    match capture {
        0 => true,
        1 => matches!(t, T::Start { .. }),
        2 => matches!(t, T::End(_)),
        3 => matches!(t, T::Text(..)),
        4 => matches!(t, T::Comment(_)),
        _ => matches!(t, T::Doctype { .. }),
    }
}

/// merge adjacent text tokens; with `types` keep the text type (CDATA sections read as Data)
fn normalise(v: Vec<T>, types: bool) -> Vec<T> {
    let mut out: Vec<T> = vec![];
    for t in v {
        let t = match t {
            T::Text(s, m) => T::Text(s, if !types { String::new() } else if m == "CDataSection" { "Data".to_string() } else { m }),
            o => o,
        };
        if let (Some(T::Text(l, lm)), T::Text(s, m)) = (out.last_mut(), &t) {
            if lm == m {
                l.push_str(s);
                continue;
            }
        }
        out.push(t);
    }
    out
}

pub fn check_case(c: &Case, st: &mut Stats) -> PResult {
    // html5ever 0.39 itself panics on a few inputs (index out of bounds in its <meta> charset
    // extraction): no reference, no verdict
    let h5 = match guard(|| tokens(&c.input)) {
        Ok(v) => conv(&v),
        Err(_) => {
            st.excluded("the reference parser (html5ever) panicked on this input");
            return Ok(());
        }
    };
    let strict = lol(c.input.as_bytes(), &c.cuts, true, c.capture).map_err(|p| Failure::new(format!("C03: panic in strict run: {p}\n  input={:?}", c.input)))?;
    st.eval();
    let types = c.capture == 0;
    let expected = normalise(h5.iter().filter(|t| keep(t, c.capture)).cloned().collect(), types);
    let has_select_or_frameset_before_textmode = {
        let mut seen = false;
        let mut amb = false;
        for t in &h5 {
            if let T::Start { name, .. } = t {
                if name == "select" || name == "frameset" {
                    seen = true;
                } else if seen && TEXT_MODE_TAGS.contains(&name.as_str()) {
                    amb = true;
                }
            }
        }
        amb || (contains_ci(c.input.as_bytes(), "<select") || contains_ci(c.input.as_bytes(), "<frameset")) && TEXT_MODE_TAGS.iter().any(|t| contains_ci(c.input.as_bytes(), &format!("<{t}")))
    };
    match strict {
        Err(e) if e == "ambiguity" => {
            ensure!(has_select_or_frameset_before_textmode, "C03: strict mode refused the input although no text-mode start tag follows a <select>/<frameset>\n  input={:?}", c.input);
            st.label("ambiguity_refused");
        }
        Err(e) => fail!("C03: strict run failed with {e}\n  input={:?}", c.input),
        Ok(got) => {
            let got = normalise(preprocess(got), types);
            if got != expected {
                let k = got.iter().zip(expected.iter()).position(|(a, b)| a != b).unwrap_or(got.len().min(expected.len()));
                let msg = format!(
                    "C03: token stream differs from the WHATWG tokenizer+tree builder (html5ever) at token #{k} (capture set {}):\n  lol-html  {:?}\n  html5ever {:?}\n  input={:?} cuts={:?}",
                    c.capture,
                    got.get(k),
                    expected.get(k),
                    c.input,
                    c.cuts
                );
                return Err(Failure::new(msg));
            }
            // a strict run that succeeds is identical to the non-strict run
            let loose = lol(c.input.as_bytes(), &c.cuts, false, c.capture).map_err(|p| Failure::new(format!("C03: panic in non-strict run: {p}")))?;
            st.eval();
            match loose {
                Ok(l) => ensure!(normalise(preprocess(l), types) == got, "C03: non-strict run differs from the successful strict run\n  input={:?}", c.input),
                Err(e) => fail!("C03: non-strict run failed ({e}) although the strict run succeeded"),
            }
        }
    }
    let b = c.input.as_bytes();
    let textmode_or_foreign = crate::gens::soup::has_text_mode_or_foreign(b);
    let special = ["</scr", "</titl", "</sty", "</textare", "<!--", "<select", "<template", "<frameset", "<table", "<![CDATA[", "foreignobject", "<desc", "<mi", "annotation-xml"].iter().any(|s| contains_ci(b, s)) || b.ends_with(b"<") || b.windows(3).any(|w| w[0] == b'<' && w[1].is_ascii_alphabetic() && w[2] == b' ');
    st.label_if(c.input.contains('\r') || c.input.contains('\0'), "cr_or_nul");
    st.label_if(c.foreign, "foreign_grammar");
    st.label_if(!c.foreign, "html_soup");
    st.label_if(textmode_or_foreign, "text_mode_or_foreign");
    st.label(&format!("capture_{}", c.capture));
    if textmode_or_foreign && special {
        let mut key = c.input.as_bytes().to_vec();
        key.push(c.capture);
        if st.nontrivial(fnv(&key)) {
            st.sample(|| json!({"input": c.input, "cuts": c.cuts, "capture": c.capture, "tokens": expected.len()}));
        }
    }
    Ok(())
}

fn known(id: &'static str, input: &'static str) -> Box<dyn Fn(&mut Stats) -> PResult + Send + Sync> {
    Box::new(move |st| match check_case(&Case { input: input.to_string(), cuts: vec![], capture: 0, foreign: true }, st) {
        Err(f) => Err(Failure::known(id, f.msg)),
        Ok(()) => Ok(()),
    })
}

impl Prop for C03 {
    fn id(&self) -> &'static str {
        "C03"
    }
    fn fixed_cases(&self) -> Vec<FixedCase> {
        vec![
            FixedCase {
                name: "script-missing-attr-value",
                finding: Some("C03-missing-attr-value-data-state"),
                what: "'<script a= >x<title>' : the script body is one text token",
                run: Box::new(|st| check_case(&Case { input: "<script a= >x<title></script><title b=>a<b></title>".into(), cuts: vec![], capture: 0, foreign: false }, st)),
            },
            FixedCase { name: "self-closing-foreign-root", finding: Some("C03-self-closing-foreign-root"), what: "'<svg/><style><img></style>': style body is raw text", run: known("C03-self-closing-foreign-root", "<svg/><style><img></style>") },
            FixedCase { name: "same-name-in-integration-point", finding: Some("C03-same-name-in-integration-point"), what: "'<svg><title><title>a</title><style><img>'", run: known("C03-same-name-in-integration-point", "<svg><title><title>a</title><style><img></style></title></svg>") },
            FixedCase { name: "cdata-in-integration-point", finding: Some("C03-cdata-in-integration-point"), what: "'<svg><foreignObject><![CDATA[x]]>'", run: known("C03-cdata-in-integration-point", "<svg><foreignObject><![CDATA[x]]></foreignObject></svg>") },
        ]
    }
    fn rule(&self) -> String {
        "case = (3/5: string over the adversarial HTML fragment alphabet without svg/math; 2/5: document from the well-nested foreign-content grammar (SVG/MathML islands with CDATA, self-closing syntax, integration points with HTML inside) embedded in mis-nested HTML; capture set all / one token kind; schedule). oracle: a successful strict run's token list (full stream via TransformController) == html5ever 0.39 tokenizer driven by its real tree builder (names, de-duplicated attributes, self-closing flags, comment text, doctype fields, text concatenated per run with its text type), an ambiguity error only when a text-mode start tag follows <select>/<frameset>, and strict Ok => identical non-strict run. Inputs have no character references, CR or NUL. non-trivial = has a text-mode element or foreign island AND a truncated construct / partial end tag / script escape / select-template-frameset-table tag / integration point / CDATA; distinct by hash(input, capture)".into()
    }
    fn assumptions(&self) -> Vec<String> {
        vec!["html5ever 0.39 + markup5ever_rcdom is the WHATWG reference (scripting enabled)".into(), "three open findings in foreign content are excluded from the grammar by construction and demonstrated by fixed cases".into(), "annotation-xml integration points and <p> inside integration points are not generated for this differential: html5ever 0.39 omits annotation-xml from its scope-boundary set (the specification lists it), so its tree builder closes outer <p> elements there and is not a usable reference; C14/C16 still cover them against the generator's model".into()]
    }
    fn plan(&self, tier: Tier) -> Plan {
        match tier {
            Tier::Quick => Plan { cases: 1_000_000, tape_len: 300 },
            Tier::Thorough => Plan { cases: 8_000_000, tape_len: 420 },
        }
    }
    fn run(&self, tape: &[u16], st: &mut Stats) -> PResult {
        check_case(&decode(tape), st)
    }
    fn describe(&self, tape: &[u16]) -> Value {
        let c = decode(tape);
        json!({"input": c.input, "input_shown": show(c.input.as_bytes()), "cuts": c.cuts, "capture": c.capture, "foreign_grammar": c.foreign})
    }
}
