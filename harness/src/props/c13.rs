//! C13 Character-encoding fidelity in every supported encoding.
use crate::engine::*;
use crate::gens::enc::{ENCODINGS, NON_ASCII_COMPATIBLE, index_of, pool};
use crate::gens::input::{InputOpts, input_in};
use crate::gens::sched::sched_spec;
use crate::model::attr::parse_tag;
use crate::obs::*;
use crate::tape::{Tape, fnv, frac_to_pos};
use crate::{ensure, fail};
use encoding_rs::Encoding;
use lol_html::AsciiCompatibleEncoding;
use serde_json::{Value, json};

pub struct C13;

pub enum Case {
    /// strings read by handlers == one-shot decode of the bytes at the reported range
    /// `sparse`: a generated observer set instead of "every observer" (text handlers scoped to
    /// elements: the decoder is started and flushed at scope boundaries, the parser changes modes)
    Decode { enc: &'static Encoding, input: Vec<u8>, cuts: Vec<usize>, sparse: Option<Cfg> },
    /// inserted content == one-shot encode (numeric references for unmappable characters)
    Insert { enc: &'static Encoding, input: Vec<u8>, cuts: Vec<usize>, strings: Vec<(String, CT)> },
    /// <meta charset> switches the encoding once, after the tag
    Switch { from: &'static Encoding, to_label: String, part1: String, part2: String, late_meta: Option<String>, cuts_frac: Vec<u16>, insert: String, handlers: u8, http_equiv: bool },
}

fn mb_run(t: &mut Tape<'_>, enc: &'static Encoding, target_bytes: usize) -> Vec<u8> {
    let p = pool(index_of(enc));
    let all: Vec<char> = p.safe.iter().chain(p.ascii_trail.iter()).copied().collect();
    let mut out = vec![];
    if all.is_empty() {
        return vec![b'x'; target_bytes];
    }
    let k = t.range(1, 4);
    let chars: Vec<char> = (0..k).map(|_| all[t.below(all.len())]).collect();
    let mut i = 0;
    while out.len() < target_bytes {
        let c = chars[i % chars.len()];
        i += 1;
        // keep markup-significant trail bytes out of long text so the node stays one node
        let s = c.to_string();
        let (b, _, _) = enc.encode(&s);
        if b.iter().any(|x| matches!(x, b'<' | b'&')) {
            out.push(b'a');
        } else {
            out.extend_from_slice(&b);
        }
        if i % 37 == 0 {
            out.push(b' ');
        }
    }
    out
}

const INSERT_STRS: &[&str] = &["plain", "<b>x</b>", "a&b<c>d", "é", "日本語", "😀", "ü\u{a0}€", "Ω→", "\u{fffd}", "a\u{10ffff}b", "", "“q”", "ж", "ก", "中"];

pub fn decode(tape: &[u16]) -> Case {
    let mut t = Tape::new(tape);
    let enc = ENCODINGS[t.below(ENCODINGS.len())];
    let spec = sched_spec(&mut t);
    match t.weighted(&[5, 3, 3]) {
        0 => {
            let long = t.chance(1, 4);
            let mut input = input_in(&mut t, &InputOpts { max_frags: 14, ..Default::default() }, enc);
            if long {
                let n = *t.pick(&[1000usize, 1024, 1030, 2100, 3100]);
                let at = frac_to_pos(t.frac(), input.len());
                let run = mb_run(&mut t, enc, n);
                let mut v = input[..at].to_vec();
                v.extend_from_slice(&run);
                v.extend_from_slice(&input[at..]);
                input = v;
            }
            // malformed sequences
            if t.chance(1, 3) {
                let k = t.range(1, 3);
                for _ in 0..k {
                    let at = frac_to_pos(t.frac(), input.len());
                    let b = *t.pick(&[0x80u8, 0xff, 0xc3, 0xe3, 0xf0, 0x81, 0x8f, 0xa0, 0xfe, 0x9f]);
                    input.insert(at, b);
                }
            }
            let cuts = spec.resolve(input.len());
            let sparse = if t.chance(1, 3) {
                let mut cfg = Cfg { encoding: enc, ..Cfg::default() };
                crate::gens::handlers::observers(&mut t, &mut cfg, 3, 1);
                Some(cfg)
            } else {
                None
            };
            Case::Decode { enc, input, cuts, sparse }
        }
        1 => {
            let n = t.range(1, 3);
            let strings = (0..n)
                .map(|_| {
                    let base = t.pick(INSERT_STRS).to_string();
                    // occasionally long content: crosses the text encoder's stack and heap buffer sizes
                    let rep = *t.pick(&[1usize, 1, 1, 1, 20, 70, 400, 1500]);
                    (base.repeat(rep), if t.chance(1, 2) { CT::Text } else { CT::Html })
                })
                .collect();
            let input = input_in(&mut t, &InputOpts { max_frags: 8, safe_only: true, ..Default::default() }, enc);
            let cuts = spec.resolve(input.len());
            Case::Insert { enc, input, cuts, strings }
        }
        _ => {
            let to = ENCODINGS[t.below(ENCODINGS.len())];
            let to_label = match t.below(8) {
                0 => "utf-16".to_string(),
                1 => "bogus-charset".to_string(),
                2 => "iso-2022-jp".to_string(),
                3 => to.name().to_ascii_uppercase(),
                _ => to.name().to_string(),
            };
            let part = |t: &mut Tape<'_>| -> String {
                let n = t.range(0, 4);
                (0..n).map(|_| *t.pick(&["text é ", "<p>ж</p>", "<!--日-->", "<b title=\"ü\">x</b>", "plain ", "😀", "<i>Ω</i>"])).collect()
            };
            let part1 = part(&mut t);
            let part2 = part(&mut t);
            let late_meta = if t.chance(1, 3) { Some(ENCODINGS[t.below(ENCODINGS.len())].name().to_string()) } else { None };
            let k = t.range(0, 4);
            let cuts_frac = (0..k).map(|_| t.frac()).collect();
            Case::Switch { from: enc, to_label, part1, part2, late_meta, cuts_frac, insert: t.pick(INSERT_STRS).to_string(), handlers: t.below(8) as u8, http_equiv: t.chance(1, 3) }
        }
    }
}

fn dec(enc: &'static Encoding, b: &[u8]) -> String {
    enc.decode_without_bom_handling(b).0.into_owned()
}

fn escape_text(s: &str) -> String {
    s.replace('&', "&amp;").replace('<', "&lt;").replace('>', "&gt;")
}

fn enc_content(enc: &'static Encoding, s: &str, ct: CT) -> Vec<u8> {
    let s = if ct == CT::Text { escape_text(s) } else { s.to_string() };
    enc.encode(&s).0.into_owned()
}

fn all_obs(enc: &'static Encoding) -> Cfg {
    let mut cfg = Cfg { encoding: enc, ..Cfg::default() };
    cfg.docs.push(DocSpec { doctype: true, comments: true, text: true, end: true, ops: vec![] });
    cfg.sels.push(SelSpec { sel: "*".into(), el: true, end_tag: true, ..Default::default() });
    cfg
}

fn check_decode(enc: &'static Encoding, input: &[u8], cuts: &[usize], sparse: Option<&Cfg>, st: &mut Stats) -> PResult {
    let r = run(&split(input, cuts), &sparse.cloned().unwrap_or_else(|| all_obs(enc)));
    st.label_if(sparse.is_some(), "decode_with_sparse_handlers");
    st.eval();
    if let Some(p) = r.panicked() {
        fail!("C13: panic: {p}");
    }
    ensure!(r.result.is_ok(), "C13: unexpected error {:?}", r.result);
    let evs = norm(&r.events).map_err(|e| Failure::new(format!("C13: {e}")))?;
    let mut long_node = false;
    let mut split_char = false;
    for e in &evs {
        match e {
            Ev::Text { text, loc, .. } => {
                let want = dec(enc, &input[loc.0..loc.1]);
                if *text != want {
                    let k = text.chars().zip(want.chars()).position(|(a, b)| a != b).unwrap_or(text.chars().count().min(want.chars().count()));
                    fail!("C13: text node at {loc:?} in {} read by the handler differs from the one-shot decoding of its bytes at char {k}: got {:?} want {:?} (cuts {:?})", enc.name(), text.chars().skip(k.saturating_sub(3)).take(8).collect::<String>(), want.chars().skip(k.saturating_sub(3)).take(8).collect::<String>(), &cuts[..cuts.len().min(8)]);
                }
                long_node |= loc.1 - loc.0 > 1024 && input[loc.0..loc.1].iter().any(|b| *b >= 0x80);
                split_char |= cuts.iter().any(|c| *c > loc.0 && *c < loc.1 && input[*c] >= 0x80 && input[*c - 1] >= 0x80);
            }
            Ev::Comment { text, loc, .. } => {
                let raw = &input[loc.0..loc.1];
                if raw.len() >= 7 && raw.starts_with(b"<!--") && raw.ends_with(b"-->") && !raw[..raw.len() - 3].ends_with(b"--!") {
                    let want = dec(enc, &raw[4..raw.len() - 3]);
                    ensure!(*text == want, "C13: comment text {text:?} != decoding of its bytes {want:?} in {}", enc.name());
                }
            }
            Ev::Element { name_pc, attrs, loc, .. } => {
                if let Some(rt) = parse_tag(input, loc.0) {
                    let want = dec(enc, &input[rt.name.0..rt.name.1]);
                    ensure!(*name_pc == want, "C13: tag name {name_pc:?} != decoding of its bytes {want:?} in {}", enc.name());
                }
                for a in attrs {
                    if let (Some(nl), Some(vl)) = (a.name_loc, a.value_loc) {
                        ensure!(a.name_pc == dec(enc, &input[nl.0..nl.1]), "C13: attribute name {:?} != decoding of its bytes in {}", a.name_pc, enc.name());
                        ensure!(a.value == dec(enc, &input[vl.0..vl.1]), "C13: attribute value {:?} != decoding of its bytes {:?} in {}", a.value, dec(enc, &input[vl.0..vl.1]), enc.name());
                        ensure!(a.name == a.name_pc.to_ascii_lowercase(), "C13: attribute name() is not the ASCII-lowercased name");
                    }
                }
            }
            _ => {}
        }
    }
    let malformed = enc.decode_without_bom_handling(input).1;
    st.label_if(long_node, "text_longer_than_decoder_buffer");
    st.label_if(split_char, "cut_inside_multibyte_char");
    st.label_if(malformed, "malformed_sequences");
    st.label(&format!("enc_{}", enc.name()));
    if long_node || split_char {
        let mut key = input.to_vec();
        key.extend(format!("{}{:?}", enc.name(), cuts).as_bytes());
        if st.nontrivial(fnv(&key)) {
            st.sample(|| json!({"kind": "decode", "encoding": enc.name(), "input_len": input.len(), "input_head": show(&input[..input.len().min(80)]), "cuts": cuts.len(), "long_text": long_node, "malformed": malformed}));
        }
    }
    Ok(())
}

fn check_insert(enc: &'static Encoding, input: &[u8], cuts: &[usize], strings: &[(String, CT)], st: &mut Stats) -> PResult {
    let mut cfg = Cfg { encoding: enc, ..Cfg::default() };
    let mut d = DocSpec::default();
    for (s, ct) in strings {
        d.ops.push(ScriptOp { kind: Kind::DocEnd, nth: None, every_chunk: false, op: Op::Append(s.clone(), *ct) });
    }
    cfg.docs.push(d);
    let r = run(&split(input, cuts), &cfg);
    st.eval();
    if let Some(p) = r.panicked() {
        fail!("C13: panic: {p}");
    }
    ensure!(r.result.is_ok(), "C13: unexpected error {:?}", r.result);
    let mut want = input.to_vec();
    let mut unmappable = false;
    for (s, ct) in strings {
        want.extend(enc_content(enc, s, *ct));
        unmappable |= enc.encode(s).2;
    }
    if r.out != want {
        let k = first_diff(&r.out, &want);
        fail!("C13: content inserted in {} is not the encoding_rs encoding (numeric references for unmappable characters): strings {strings:?}\n  got  {:?}\n  want {:?}", enc.name(), show(&r.out[k.saturating_sub(4)..(k + 24).min(r.out.len())]), show(&want[k.saturating_sub(4)..(k + 24).min(want.len())]));
    }
    // streaming insertion of the same content in pieces must give the same bytes
    let mut cfg2 = Cfg { encoding: enc, ..Cfg::default() };
    cfg2.docs.push(DocSpec { comments: false, ..Default::default() });
    cfg2.sels.push(SelSpec { sel: "*".into(), ops: strings.iter().map(|(s, ct)| { let mid = s.char_indices().nth(s.chars().count() / 2).map(|x| x.0).unwrap_or(0); ScriptOp { kind: Kind::Element, nth: Some(0), every_chunk: false, op: Op::StreamBefore(vec![s[..mid].to_string(), s[mid..].to_string()], *ct) } }).collect(), ..Default::default() });
    let mut cfg3 = cfg2.clone();
    cfg3.sels[0].ops = strings.iter().map(|(s, ct)| ScriptOp { kind: Kind::Element, nth: Some(0), every_chunk: false, op: Op::Before(s.clone(), *ct) }).collect();
    let (a, b) = (run(&split(input, cuts), &cfg2), run(&split(input, cuts), &cfg3));
    st.evals_add(2);
    ensure!(a.out == b.out, "C13: streaming insertion of {strings:?} in two pieces differs from inserting it at once in {}", enc.name());
    st.label_if(unmappable, "unmappable_inserted");
    st.label(&format!("enc_{}", enc.name()));
    if unmappable {
        let mut key = input.to_vec();
        key.extend(format!("{}{:?}", enc.name(), strings).as_bytes());
        if st.nontrivial(fnv(&key)) {
            st.sample(|| json!({"kind": "insert", "encoding": enc.name(), "strings": format!("{strings:?}")}));
        }
    }
    Ok(())
}

fn mappable(enc: &'static Encoding, s: &str) -> String {
    // map the sample text into `enc`'s repertoire
    let p = pool(index_of(enc));
    s.chars().map(|c| if c.is_ascii() { c } else if enc == encoding_rs::UTF_8 { c } else if p.safe.is_empty() { 'x' } else { p.safe[(c as usize) % p.safe.len()] }).collect()
}

#[allow(clippy::too_many_arguments)]
fn check_switch(from: &'static Encoding, to_label: &str, part1: &str, part2: &str, late_meta: &Option<String>, cuts_frac: &[u16], insert: &str, handlers: u8, http_equiv: bool, st: &mut Stats) -> PResult {
    let resolve = |l: &str| -> Option<&'static Encoding> { Encoding::for_label_no_replacement(l.as_bytes()).filter(|e| e.is_ascii_compatible()) };
    let first = resolve(to_label);
    let eff1 = first.unwrap_or(from);
    let p1 = mappable(from, part1);
    let p2 = mappable(eff1, part2);
    let mut input = from.encode(&p1).0.into_owned();
    // both declaration syntaxes (the http-equiv one goes through a different label parser)
    let meta = if http_equiv { format!("<meta http-equiv=\"Content-Type\" content=\"text/html; charset={to_label}\">") } else { format!("<meta charset=\"{to_label}\">") };
    input.extend_from_slice(meta.as_bytes());
    let meta1_end = input.len();
    input.extend(eff1.encode(&p2).0.iter());
    let mut meta2_end = None;
    let mut second = None;
    if let Some(l) = late_meta {
        input.extend(format!("<meta charset={l}>").as_bytes());
        meta2_end = Some(input.len());
        second = resolve(l);
        input.extend(b"tail");
    }
    // HTML allows the encoding to be set only once: the first declaration with a supported label wins
    let (to, meta_end) = match (first, second) {
        (Some(f), _) => (Some(f), meta1_end),
        (None, Some(s2)) => (Some(s2), meta2_end.unwrap()),
        (None, None) => (None, input.len()),
    };
    let eff = to.unwrap_or(from);
    let mut cuts: Vec<usize> = cuts_frac.iter().map(|f| frac_to_pos(*f, input.len())).collect();
    cuts.sort();
    // handler sets: the switch must not depend on something keeping the lexer busy after the tag
    let (mut cfg, hname) = match handlers {
        0 | 1 => (all_obs(from), "all_observers"),
        2 => (Cfg { encoding: from, docs: vec![DocSpec { end: true, ..Default::default() }], ..Cfg::default() }, "document_end_only"),
        3 => (Cfg { encoding: from, docs: vec![DocSpec { end: true, ..Default::default() }], sels: vec![SelSpec { sel: "p".into(), el: true, text: true, ..Default::default() }], ..Cfg::default() }, "p_element_and_text"),
        4 => (Cfg { encoding: from, docs: vec![DocSpec { end: true, ..Default::default() }], sels: vec![SelSpec { sel: "meta".into(), el: true, ..Default::default() }], ..Cfg::default() }, "meta_element_only"),
        5 => (Cfg { encoding: from, docs: vec![DocSpec { end: true, ..Default::default() }], sels: vec![SelSpec { sel: "b[title]".into(), text: true, ..Default::default() }], ..Cfg::default() }, "b_text_only"),
        // a user handler edits the declaring tag: the declaration in the INPUT still decides
        6 => (
            Cfg { encoding: from, docs: vec![DocSpec { end: true, text: true, comments: true, ..Default::default() }], sels: vec![SelSpec { sel: "meta".into(), ops: vec![ScriptOp { kind: Kind::Element, nth: None, every_chunk: false, op: Op::RemoveAttr("charset".into()) }], ..Default::default() }], ..Cfg::default() },
            "meta_handler_strips_charset",
        ),
        _ => (
            Cfg {
                encoding: from,
                docs: vec![DocSpec { end: true, text: true, comments: true, ..Default::default() }],
                sels: vec![SelSpec { sel: "meta".into(), ops: vec![ScriptOp { kind: Kind::Element, nth: None, every_chunk: false, op: Op::SetAttr("charset".into(), if eff.name() == "UTF-8" { "windows-1252".into() } else { "utf-8".into() }) }], ..Default::default() }],
                ..Cfg::default()
            },
            "meta_handler_rewrites_charset",
        ),
    };
    let edits_meta = handlers >= 6;
    cfg.adjust_charset = true;
    cfg.docs[0].ops.push(ScriptOp { kind: Kind::DocEnd, nth: None, every_chunk: false, op: Op::Append(insert.to_string(), CT::Html) });
    let r = run(&split(&input, &cuts), &cfg);
    st.eval();
    if let Some(p) = r.panicked() {
        fail!("C13: panic: {p}");
    }
    ensure!(r.result.is_ok(), "C13: unexpected error {:?}", r.result);
    let encs: Vec<(usize, &str)> = r.sink.iter().enumerate().filter_map(|(i, e)| if let SinkEv::SetEncoding(n) = e { Some((i, *n)) } else { None }).collect();
    ensure!(encs.first() == Some(&(0, from.name())), "C13: the sink was not told the initial encoding first: {encs:?}");
    let switched = to.is_some_and(|t| t != from);
    if switched {
        ensure!(encs.len() == 2 && encs[1].1 == eff.name(), "C13: expected exactly one switch to {} after <meta charset={to_label}>, sink saw {encs:?}", eff.name());
        // notified right after the bytes of the declaring tag and before any later byte
        let before: Vec<u8> = concat_sink(&r.sink[..encs[1].0]);
        if edits_meta {
            // the tag is re-serialised by the user handler: everything before it is unchanged, and the notification precedes every byte that follows the tag
            ensure!(before.len() >= meta_end.saturating_sub(meta.len() + 24) && before.ends_with(b">") && r.out[before.len()..].starts_with(&input[meta_end..(meta_end + 1).min(input.len())]), "C13: set_encoding({}) was not delivered right after the (edited) declaring <meta> tag: {} bytes emitted before it, output there {:?}", eff.name(), before.len(), show(&r.out[before.len().saturating_sub(12)..(before.len() + 8).min(r.out.len())]));
        } else {
            ensure!(before == input[..meta_end], "C13: set_encoding({}) was delivered after {} output bytes, but the declaring <meta> tag ends at byte {meta_end}", eff.name(), before.len());
        }
    } else {
        ensure!(encs.len() == 1, "C13: encoding switched although the declared charset {to_label:?} is unsupported or unchanged: {encs:?}");
    }
    // strings before the tag decoded with the old encoding, after it with the new one
    let evs = norm(&r.events).map_err(|e| Failure::new(format!("C13: {e}")))?;
    for e in &evs {
        if let Ev::Text { text, loc, .. } = e {
            let enc = if loc.0 >= meta_end { eff } else { from };
            let want = dec(enc, &input[loc.0..loc.1]);
            ensure!(*text == want, "C13: text at {loc:?} (meta tag ends at {meta_end}) should be decoded as {}: got {text:?} want {want:?}", enc.name());
        }
        if let Ev::Comment { text, loc, .. } = e {
            let enc = if loc.0 >= meta_end { eff } else { from };
            let raw = &input[loc.0..loc.1];
            if raw.len() >= 7 {
                ensure!(*text == dec(enc, &raw[4..raw.len() - 3]), "C13: comment at {loc:?} decoded with the wrong encoding (expected {})", enc.name());
            }
        }
    }
    // content inserted after the switch is encoded in the new encoding
    let tail = eff.encode(insert).0.into_owned();
    ensure!(r.out.ends_with(&tail), "C13: document-end content inserted after the charset switch is not encoded in {}: want suffix {:?}, output ends {:?}", eff.name(), show(&tail), show(&r.out[r.out.len().saturating_sub(tail.len() + 4)..]));
    st.label_if(switched, "charset_switch");
    st.label_if(http_equiv, "http_equiv_declaration");
    st.label_if(switched, &format!("switch_with_{hname}"));
    st.label_if(to.is_none(), "unsupported_or_non_ascii_compatible_label");
    st.label_if(late_meta.is_some(), "second_meta_ignored");
    if switched {
        if st.nontrivial(fnv(format!("{}{to_label}{part1}{part2}{late_meta:?}{cuts:?}", from.name()).as_bytes())) {
            st.sample(|| json!({"kind": "switch", "from": from.name(), "to": to_label, "input": show(&input), "cuts": cuts}));
        }
    }
    Ok(())
}

impl Prop for C13 {
    fn id(&self) -> &'static str {
        "C13"
    }
    fn fixed_cases(&self) -> Vec<FixedCase> {
        vec![FixedCase {
            name: "bom-like-bytes-in-names-and-values",
            finding: Some("C13-bom-sniffing-in-names-values"),
            what: "attribute names/values and comment text starting with FE FF / FF FE / EF BB BF are decoded in the document encoding, without BOM sniffing",
            run: Box::new(|st| {
                check_decode(encoding_rs::UTF_8, b"<a \xfe\xff/ ><b t=\"\xef\xbb\xbfx\"><!--\xef\xbb\xbfc-->", &[], None, st)?;
                check_decode(encoding_rs::WINDOWS_1252, b"<a t=\xff\xfeab><!--\xfe\xffcd-->", &[], None, st)
            }),
        }, FixedCase {
            name: "ascii-compatibility-gate",
            finding: None,
            what: "AsciiCompatibleEncoding::new is None exactly for UTF-16LE/BE, ISO-2022-JP and replacement",
            run: Box::new(|st| {
                st.eval();
                for e in ENCODINGS.iter() {
                    ensure!(AsciiCompatibleEncoding::new(e).is_some(), "C13: {} refused", e.name());
                }
                for e in NON_ASCII_COMPATIBLE.iter() {
                    ensure!(AsciiCompatibleEncoding::new(e).is_none(), "C13: non-ASCII-compatible {} accepted", e.name());
                }
                Ok(())
            }),
        }]
    }
    fn rule(&self) -> String {
        "case over 36 encodings, three kinds. decode (2/3 with every observer registered, 1/3 with a generated sparse observer set whose text handlers are scoped to elements): soup in the encoding (incl. characters with ASCII trail bytes), optional 1000-3100-byte multi-byte text run, optional injected malformed bytes, schedule; every text node (chunks concatenated), comment text, tag name, attribute name and value read by handlers == encoding_rs ONE-SHOT decode of the bytes at the reported range. insert: document-end/element insertions of strings with mappable and unmappable characters in both content types == one-shot encode (numeric references), streaming insertion in two pieces == single insertion. switch: text in encoding A + <meta charset=B> (or the http-equiv=Content-Type syntax) + text in B (+ optional later meta), under five handler sets (all observers; document-end handler only; a `p` element+text handler; a `meta` element handler only; a `b[title]` text handler only - the parser may or may not stay in lexer mode after the tag; and a `meta` handler that strips or rewrites the charset attribute - the declaration in the input still decides): exactly one set_encoding(B) delivered right after the declaring tag's bytes, later strings decoded and later insertions encoded in B, none for unsupported / non-ASCII-compatible / identical labels. non-trivial = a cut inside a multi-byte character, a text node > 1024 bytes, an unmappable insertion or an actual switch".into()
    }
    fn assumptions(&self) -> Vec<String> {
        vec!["encoding_rs one-shot decode_without_bom_handling / encode are the codec oracle (the implementation uses the streaming API in 1 KiB pieces)".into()]
    }
    fn plan(&self, tier: Tier) -> Plan {
        match tier {
            Tier::Quick => Plan { cases: 1_000_000, tape_len: 200 },
            Tier::Thorough => Plan { cases: 12_000_000, tape_len: 260 },
        }
    }
    fn run(&self, tape: &[u16], st: &mut Stats) -> PResult {
        match decode(tape) {
            Case::Decode { enc, input, cuts, sparse } => check_decode(enc, &input, &cuts, sparse.as_ref(), st),
            Case::Insert { enc, input, cuts, strings } => check_insert(enc, &input, &cuts, &strings, st),
            Case::Switch { from, to_label, part1, part2, late_meta, cuts_frac, insert, handlers, http_equiv } => check_switch(from, &to_label, &part1, &part2, &late_meta, &cuts_frac, &insert, handlers, http_equiv, st),
        }
    }
    fn describe(&self, tape: &[u16]) -> Value {
        match decode(tape) {
            Case::Decode { enc, input, cuts, sparse } => json!({"kind": "decode", "encoding": enc.name(), "input": show(&input[..input.len().min(300)]), "input_bytes": input, "cuts": cuts, "sparse_handlers": sparse.map(|c| c.to_json())}),
            Case::Insert { enc, input, cuts, strings } => json!({"kind": "insert", "encoding": enc.name(), "input": show(&input), "cuts": cuts, "strings": format!("{strings:?}")}),
            Case::Switch { from, to_label, part1, part2, late_meta, cuts_frac, insert, handlers, http_equiv } => json!({"kind": "switch", "http_equiv_syntax": http_equiv, "from": from.name(), "to": to_label, "part1": part1, "part2": part2, "late_meta": late_meta, "cuts_frac": cuts_frac, "insert": insert, "handlers": handlers}),
        }
    }
}
