//! C15 "work stays proportional to input size": deterministic instruction counts of the
//! pathological families at n and 4n under `valgrind --tool=cachegrind --cache-sim=no`.
use crate::engine::*;
use crate::obs::*;
use serde_json::{Value, json};

pub const PERF: &[(&str, usize)] = &[
    ("nesting_selectors", 4000),
    ("nesting_no_handlers", 20000),
    ("attributes", 1500),
    ("stray_end_tags", 20000),
    ("selectors_count", 300),
    ("text_captured", 200000),
    ("comment_dashes", 100000),
    ("alternating", 10000),
    ("foreign_nesting", 10000),
    ("siblings_nth_of_type", 3000),
    ("mutations_on_one_element", 4000),
    ("text_small_tags", 4000),
    ("script_less_than_signs", 100000),
    ("cdata_brackets", 10000),
];

pub fn run_perf(name: &str, n: usize) -> Result<(), String> {
    let mut cfg = Cfg::default();
    let input: Vec<u8> = match name {
        "nesting_selectors" => {
            cfg.sels.push(SelSpec { sel: "div div > div".into(), el: true, end_tag: true, ..Default::default() });
            format!("{}{}", "<div>".repeat(n), "</div>".repeat(n)).into_bytes()
        }
        "nesting_no_handlers" => "<div><span>".repeat(n).into_bytes(),
        "attributes" => {
            cfg.sels.push(SelSpec { sel: "[zz]".into(), el: true, ..Default::default() });
            format!("<a {}>", (0..n).map(|i| format!("a{i}=v ")).collect::<String>()).into_bytes()
        }
        "stray_end_tags" => {
            cfg.sels.push(SelSpec { sel: "p".into(), el: true, end_tag: true, ..Default::default() });
            format!("<p>{}", "</q>".repeat(n)).into_bytes()
        }
        "selectors_count" => {
            for i in 0..n {
                cfg.sels.push(SelSpec { sel: format!("div.c{} > span[a{}]", i % 50, i), el: true, ..Default::default() });
            }
            "<div class=\"c1 c2 c3\"><span a1 a2 a51></span></div>".repeat(300).into_bytes()
        }
        "text_captured" => {
            cfg.docs.push(DocSpec { text: true, ..Default::default() });
            "\u{e9}a".repeat(n).into_bytes()
        }
        "comment_dashes" => {
            cfg.docs.push(DocSpec { comments: true, ..Default::default() });
            format!("<!--{}-->", "- ".repeat(n)).into_bytes()
        }
        "alternating" => {
            cfg.sels.push(SelSpec { sel: "p.a".into(), el: true, text: true, ..Default::default() });
            "<p class=a>x</p><q>y</q>".repeat(n).into_bytes()
        }
        "foreign_nesting" => {
            cfg.docs.push(DocSpec { text: true, ..Default::default() });
            format!("{}x", "<svg><foreignObject>".repeat(n)).into_bytes()
        }
        "siblings_nth_of_type" => {
            cfg.sels.push(SelSpec { sel: "p:nth-of-type(2n+1)".into(), el: true, ..Default::default() });
            cfg.sels.push(SelSpec { sel: "div > q:nth-child(3n)".into(), el: true, ..Default::default() });
            format!("<div>{}</div>", "<p></p><q></q>".repeat(n)).into_bytes()
        }
        "mutations_on_one_element" => {
            let mut ops = vec![];
            for _ in 0..n {
                // before/append only: prepend()/after() insert at the front of the element's chunk
                // list (Vec::insert(0)), so k such calls on ONE element move O(k^2) chunk headers -
                // the number of handler calls is not input size, so that is not held against C15
                for op in [Op::Before("b".into(), CT::Html), Op::Append("a".into(), CT::Html)] {
                    ops.push(ScriptOp { kind: Kind::Element, nth: None, every_chunk: false, op });
                }
            }
            cfg.sels.push(SelSpec { sel: "p".into(), ops, ..Default::default() });
            b"<div><p>x</p></div>".to_vec()
        }
        "text_small_tags" => {
            cfg.docs.push(DocSpec { text: true, ..Default::default() });
            "<b>x</b>".repeat(n).into_bytes()
        }
        "script_less_than_signs" => format!("<script>{}</script>", "<".repeat(n)).into_bytes(),
        "cdata_brackets" => {
            cfg.docs.push(DocSpec { text: true, ..Default::default() });
            format!("<svg><![CDATA[{}]]></svg>", "]".repeat(n)).into_bytes()
        }
        _ => return Err(format!("unknown perf family {name}")),
    };
    // fixed 4 KiB blocks: the caller-chosen schedule must not be blamed on the parser
    let cuts: Vec<usize> = (1..input.len()).filter(|i| i % 4096 == 0).collect();
    let r = run(&split(&input, &cuts), &cfg);
    match r.result {
        Ok(()) => Ok(()),
        Err(e) => Err(format!("{e:?}")),
    }
}

fn instructions(exe: &std::path::Path, name: &str, n: usize, root: &std::path::Path) -> Result<u64, String> {
    let out_file = root.join("target").join(format!("cachegrind-{name}-{n}.out"));
    let o = std::process::Command::new("valgrind")
        .args(["--tool=cachegrind", "--cache-sim=no", &format!("--cachegrind-out-file={}", out_file.display())])
        .arg(exe)
        .args(["C15", "--perf", name, &n.to_string()])
        .output()
        .map_err(|e| format!("valgrind: {e}"))?;
    let _ = std::fs::remove_file(&out_file);
    if !o.status.success() {
        return Err(format!("valgrind run failed: {:?}", o.status));
    }
    let se = String::from_utf8_lossy(&o.stderr);
    for l in se.lines() {
        if let Some(p) = l.find("refs:").filter(|_| l.contains(" I ")) {
            let digits: String = l[p + 5..].chars().filter(|c| c.is_ascii_digit()).collect();
            return digits.parse::<u64>().map_err(|e| e.to_string());
        }
    }
    Err("no 'I refs' line in cachegrind output".into())
}

pub fn complexity(ctx: &Ctx, st: &mut Stats) -> Result<(), (Failure, Value)> {
    let exe = std::env::current_exe().map_err(|e| (Failure::new(format!("current_exe: {e}")), json!(null)))?;
    // baseline: process start-up cost (n = 0 equivalent)
    let base = match instructions(&exe, "nesting_no_handlers", 1, &ctx.root) {
        Ok(b) => b,
        Err(e) => {
            st.label(&format!("complexity_probe_inconclusive: {e}"));
            return Ok(());
        }
    };
    for (name, n) in PERF {
        let (a, b) = match (instructions(&exe, name, *n, &ctx.root), instructions(&exe, name, n * 4, &ctx.root)) {
            (Ok(a), Ok(b)) => (a, b),
            (e1, e2) => {
                st.label(&format!("complexity_probe_inconclusive_{name}: {e1:?} {e2:?}"));
                continue;
            }
        };
        st.evals_add(2);
        let (wa, wb) = (a.saturating_sub(base).max(1), b.saturating_sub(base).max(1));
        let ratio = wb as f64 / wa as f64;
        st.extra_results.push(json!({"complexity_family": name, "n": n, "instructions_n": wa, "instructions_4n": wb, "ratio": ratio}));
        st.nontrivial(crate::tape::fnv(format!("perf-{name}").as_bytes()));
        if ratio >= 8.0 {
            return Err((Failure::new(format!("C15: work is not proportional to input size for family {name}: instructions at n={n}: {wa}, at 4n: {wb}, ratio {ratio:.2} (linear = 4, quadratic = 16, threshold 8)")), json!({"family": name, "n": n, "replay": format!("lolv C15 --perf {name} <n>")})));
        }
    }
    Ok(())
}
