//! C05 Scoped dispatch: handlers fire exactly once, in order, for exactly their scope.
use crate::engine::*;
use crate::gens::doc::{Doc, DocOpts, TK, doc};
use crate::gens::sched::sched_spec;
use crate::gens::sel::selector_set;
use crate::model::css::{SelList, matches, render};
use crate::model::tree::{Tree, induce};
use crate::obs::*;
use crate::tape::{Tape, fnv};
use crate::{ensure, fail};
use serde_json::{Value, json};

pub struct C05;

pub struct Case {
    pub sels: Vec<(SelList, [bool; 4])>,
    pub docs: Vec<[bool; 4]>,
    /// optionally: selector index whose nth matched element gets its content removed
    pub remover: Option<(usize, usize, u8)>,
    pub d: Doc,
    pub cuts: Vec<usize>,
    /// never-matching filler registrations placed before the selectors (handler ids beyond one
    /// or two 32-bit words of the VM's match sets)
    pub pad: usize,
}

pub fn decode(tape: &[u16]) -> Case {
    let mut t = Tape::new(tape);
    let lists = selector_set(&mut t, 4, false);
    let sels: Vec<(SelList, [bool; 4])> = lists
        .into_iter()
        .map(|l| {
            let m = t.range(1, 15);
            (l, [m & 1 != 0, m & 2 != 0, m & 4 != 0, m & 8 != 0])
        })
        .collect();
    let nd = t.range(0, 2);
    let docs = (0..nd)
        .map(|_| {
            let m = t.range(1, 15);
            [m & 1 != 0, m & 2 != 0, m & 4 != 0, m & 8 != 0]
        })
        .collect();
    let pad = if t.chance(1, 10) { *t.pick(&[29usize, 30, 31, 32, 33, 61, 62, 63, 64, 65]) } else { 0 };
    let remover = if t.chance(1, 4) { Some((t.below(sels.len()), t.below(3), t.below(3) as u8)) } else { None };
    let spec = sched_spec(&mut t);
    let d = doc(&mut t, &DocOpts { max_items: 14, max_depth: 6, odd_attrs: false, ..DocOpts::default() });
    let cuts = spec.resolve(d.bytes.len());
    Case { sels, docs, remover, d, cuts, pad }
}

pub fn cfg_of(c: &Case) -> Cfg {
    let mut cfg = Cfg::default();
    for k in 0..c.pad {
        let sel = match k % 3 { 0 => format!("zfill{k}"), 1 => format!("zfill{k}[zz]"), _ => format!("p > zfill{k}") };
        cfg.sels.push(SelSpec { sel, el: true, end_tag: k % 2 == 0, text: k % 4 == 0, comments: k % 5 == 0, ops: vec![] });
    }
    for (i, (l, m)) in c.sels.iter().enumerate() {
        let mut s = SelSpec { sel: render(l), el: m[0], end_tag: m[1], text: m[2], comments: m[3], ops: vec![] };
        if let Some((ri, nth, kind)) = c.remover {
            if ri == i {
                let op = match kind {
                    0 => Op::Remove,
                    1 => Op::SetInner("R".into(), CT::Text),
                    _ => Op::Replace("<r>".into(), CT::Html),
                };
                s.ops.push(ScriptOp { kind: Kind::Element, nth: Some(nth), every_chunk: false, op });
            }
        }
        cfg.sels.push(s);
    }
    for m in &c.docs {
        cfg.docs.push(DocSpec { doctype: m[0], comments: m[1], text: m[2], end: m[3], ops: vec![] });
    }
    cfg
}

/// expected events grouped per token (document order)
pub fn expected(c: &Case, tree: &Tree) -> Vec<Vec<Ev>> {
    let d = &c.d;
    // which selectors match which element
    let m: Vec<Vec<bool>> = c.sels.iter().map(|(l, _)| (0..tree.elems.len()).map(|e| matches(l, tree, e)).collect()).collect();
    let mut out: Vec<Vec<Ev>> = vec![];
    for (i, tok) in d.toks.iter().enumerate() {
        let loc = (tok.start, tok.end);
        let mut g: Vec<Ev> = vec![];
        match tok.kind {
            TK::Start => {
                let e = tree.tok_elem[i].unwrap();
                let el = &tree.elems[e];
                for (k, (_, mask)) in c.sels.iter().enumerate() {
                    if mask[0] && m[k][e] {
                        g.push(Ev::Element {
                            h: format!("s{}", k + c.pad),
                            name: el.name.clone(),
                            name_pc: el.name_pc.clone(),
                            attrs: el.attrs.iter().map(|a| AttrEv { name: a.name.clone(), name_pc: a.name_pc.clone(), value: a.value.clone(), name_loc: Some(a.name_range), value_loc: Some(a.value_range) }).collect(),
                            ns: el.ns.uri().to_string(),
                            self_closing: el.self_closing,
                            can_have_content: el.can_have_content,
                            loc,
                        });
                    }
                }
            }
            TK::End => {
                for e in &tree.closes[i] {
                    let st = &d.toks[tree.elems[*e].tok];
                    for (k, (_, mask)) in c.sels.iter().enumerate() {
                        if mask[1] && m[k][*e] {
                            g.push(Ev::EndTag { h: format!("s{}", k + c.pad), name: tok.name.to_ascii_lowercase(), name_pc: tok.name.clone(), loc, el_loc: (st.start, st.end) });
                        }
                    }
                }
            }
            TK::Text | TK::Comment => {
                let is_text = tok.kind == TK::Text;
                for (k, (_, mask)) in c.sels.iter().enumerate() {
                    let want = if is_text { mask[2] } else { mask[3] };
                    if want && tree.scope[i].iter().any(|e| m[k][*e]) {
                        g.push(if is_text {
                            Ev::Text { h: format!("s{}", k + c.pad), text: tok.name.clone(), ttype: tok.text_type.to_string(), last: true, loc }
                        } else {
                            Ev::Comment { h: format!("s{}", k + c.pad), text: tok.name.clone(), loc }
                        });
                    }
                }
                for (j, mask) in c.docs.iter().enumerate() {
                    if is_text && mask[2] {
                        g.push(Ev::Text { h: format!("d{j}"), text: tok.name.clone(), ttype: tok.text_type.to_string(), last: true, loc });
                    } else if !is_text && mask[1] {
                        g.push(Ev::Comment { h: format!("d{j}"), text: tok.name.clone(), loc });
                    }
                }
            }
            TK::Doctype => {
                for (j, mask) in c.docs.iter().enumerate() {
                    if mask[0] {
                        g.push(Ev::Doctype { h: format!("d{j}"), name: None, pid: None, sid: None, loc });
                    }
                }
            }
            TK::CdataMarker => {}
        }
        if !g.is_empty() {
            out.push(g);
        }
    }
    let ends: Vec<Ev> = c.docs.iter().enumerate().filter(|(_, m)| m[3]).map(|(j, _)| Ev::End { h: format!("d{j}") }).collect();
    if !ends.is_empty() {
        out.push(ends);
    }
    out
}

fn group(events: Vec<Ev>) -> Vec<Vec<Ev>> {
    let mut out: Vec<Vec<Ev>> = vec![];
    for e in events {
        let same = out.last().is_some_and(|g| g[0].loc() == e.loc() && std::mem::discriminant(&g[0]) == std::mem::discriminant(&e) || (g[0].loc() == e.loc() && matches!((&g[0], &e), (Ev::End { .. }, Ev::End { .. }))));
        if same {
            out.last_mut().unwrap().push(e);
        } else {
            out.push(vec![e]);
        }
    }
    out
}

pub fn check_case(c: &Case, st: &mut Stats) -> PResult {
    let cfg = cfg_of(c);
    let tree = induce(&c.d, false);
    let r = run(&split(&c.d.bytes, &c.cuts), &cfg);
    st.eval();
    if let Some(p) = r.panicked() {
        fail!("C05: panic: {p}");
    }
    ensure!(r.result.is_ok(), "C05: unexpected error {:?}", r.result);
    let evs: Vec<Ev> = r
        .events
        .iter()
        .filter(|e| !matches!(e, Ev::BailOut { .. }))
        .map(|e| match e {
            Ev::Doctype { h, loc, .. } => Ev::Doctype { h: h.clone(), name: None, pid: None, sid: None, loc: *loc },
            o => o.clone(),
        })
        .collect();
    // text chunks of different handlers interleave per chunk: normalise per handler but keep
    // the position of the *last* chunk; then order inside one token group is by first arrival
    let got = norm(&evs).map_err(|e| Failure::new(format!("C05: text chunk protocol: {e}")))?;
    let got: Vec<Ev> = got.into_iter().filter(|e| !matches!(e, Ev::Text { text, loc, .. } if text.is_empty() && loc.0 == loc.1)).collect();
    // is_self_closing() read by a later handler legitimately changes once an earlier handler on
    // the same element gave it content (set_inner_content on `<x/>` drops the decorative `/`):
    // the flag's value is C16's subject, dispatch is this property's
    let unflag = |v: Vec<Vec<Ev>>| -> Vec<Vec<Ev>> {
        v.into_iter()
            .map(|g| g.into_iter().map(|e| match e { Ev::Element { h, name, name_pc, attrs, ns, can_have_content, loc, .. } => Ev::Element { h, name, name_pc, attrs, ns, self_closing: false, can_have_content, loc }, o => o }).collect())
            .collect()
    };
    let mutating = c.remover.is_some();
    let got = if mutating { unflag(group(got)) } else { group(got) };
    let exp = if mutating { unflag(expected(c, &tree)) } else { expected(c, &tree) };
    let ctx = || format!("selectors={:?} docs={:?} doc={:?}", cfg.sels.iter().map(|s| format!("{} {}{}{}{}", s.sel, if s.el { "E" } else { "" }, if s.end_tag { "/" } else { "" }, if s.text { "T" } else { "" }, if s.comments { "C" } else { "" })).collect::<Vec<_>>(), c.docs, show(&c.d.bytes));
    for (k, (g, e)) in got.iter().zip(exp.iter()).enumerate() {
        let is_end = matches!(e[0], Ev::EndTag { .. });
        if is_end {
            let (mut a, mut b) = (g.iter().map(|x| format!("{x:?}")).collect::<Vec<_>>(), e.iter().map(|x| format!("{x:?}")).collect::<Vec<_>>());
            a.sort();
            b.sort();
            if a != b {
                fail!("C05: end-tag handler invocations differ at token group #{k}:\n  got      {g:?}\n  expected {e:?}\n  {}", ctx());
            }
            // per element: registration order
            let mut per: std::collections::BTreeMap<Loc, Vec<String>> = Default::default();
            for x in g {
                if let Ev::EndTag { h, el_loc, .. } = x {
                    per.entry(*el_loc).or_default().push(h.clone());
                }
            }
            for (el, hs) in per {
                let idx: Vec<usize> = hs.iter().map(|h| h[1..].parse().unwrap()).collect();
                ensure!(idx.windows(2).all(|w| w[0] < w[1]), "C05: end-tag handlers of the element at {el:?} ran out of registration order: {hs:?}  {}", ctx());
            }
        } else if matches!(e[0], Ev::End { .. }) {
            // several `end` handlers: the property fixes "once, after all input", not their mutual order
            let (mut a, mut b) = (g.iter().map(|x| format!("{x:?}")).collect::<Vec<_>>(), e.iter().map(|x| format!("{x:?}")).collect::<Vec<_>>());
            a.sort();
            b.sort();
            if a != b {
                fail!("C05: end handler invocations differ:\n  got      {g:?}\n  expected {e:?}\n  {}", ctx());
            }
        } else if g != e {
            fail!("C05: handler invocations differ at token group #{k}:\n  got      {g:?}\n  expected {e:?}\n  {}", ctx());
        }
    }
    if got.len() != exp.len() {
        let k = got.len().min(exp.len());
        fail!("C05: {} invocation groups, expected {}; first unmatched: got {:?} expected {:?}\n  {}", got.len(), exp.len(), got.get(k), exp.get(k), ctx());
    }
    let same_kind_multi = exp.iter().any(|g| g.len() >= 2);
    let closed_by_ancestor = tree.elems.iter().any(|e| e.closed_by.is_some() && !e.own_end);
    let m: Vec<Vec<bool>> = c.sels.iter().map(|(l, _)| (0..tree.elems.len()).map(|e| matches(l, &tree, e)).collect()).collect();
    let nested_matched = tree.elems.iter().enumerate().any(|(i, e)| m.iter().any(|mk| mk[i] && { let mut p = e.parent; let mut f = false; while let Some(pp) = p { if mk[pp] { f = true; break; } p = tree.elems[pp].parent; } f }));
    st.label_if(c.pad > 0, "many_registrations");
    st.label_if(same_kind_multi, "multi_handler_on_one_token");
    st.label_if(closed_by_ancestor, "closed_by_ancestor_end_tag");
    st.label_if(nested_matched, "nested_matched_elements");
    st.label_if(c.remover.is_some(), "content_removing_handler");
    st.label_if(c.d.has_island, "island");
    if same_kind_multi || closed_by_ancestor || nested_matched {
        let mut key = c.d.bytes.clone();
        key.extend(format!("{:?}", cfg.to_json()).as_bytes());
        if st.nontrivial(fnv(&key)) {
            st.sample(|| json!({"doc": show(&c.d.bytes), "cfg": cfg.to_json(), "cuts": c.cuts, "expected_groups": exp.len()}));
        }
    }
    Ok(())
}

impl Prop for C05 {
    fn id(&self) -> &'static str {
        "C05"
    }
    fn rule(&self) -> String {
        "case = (1-4 selectors each with a subset of element/end-tag/text/comments handlers, optionally preceded by 29-65 never-matching filler registrations, 0-2 document handler sets, optionally one content-removing mutation, structured document incl. unclosed/mis-nested/foreign/raw-text, schedule); oracle: the invocation log equals the one computed from R-scope (R-tree + R-css): selector text/comment handlers get exactly the nodes inside open matched elements, document handlers everything, end-tag handlers once at the closing token (own or ancestor's), never for void/never-closed, document order, registration order within a token with selector handlers before document handlers, end handler last. non-trivial = >= 2 handlers on one token, or an element closed by an ancestor's end tag, or nested matched elements; distinct by hash(doc,cfg)".into()
    }
    fn assumptions(&self) -> Vec<String> {
        vec!["when one end tag closes several elements the order between elements is not fixed by the property: compared per element and as a multiset per token".into()]
    }
    fn plan(&self, tier: Tier) -> Plan {
        match tier {
            Tier::Quick => Plan { cases: 1_500_000, tape_len: 420 },
            Tier::Thorough => Plan { cases: 16_000_000, tape_len: 520 },
        }
    }
    fn run(&self, tape: &[u16], st: &mut Stats) -> PResult {
        check_case(&decode(tape), st)
    }
    fn describe(&self, tape: &[u16]) -> Value {
        let c = decode(tape);
        json!({"doc": show(&c.d.bytes), "cfg": cfg_of(&c).to_json(), "cuts": c.cuts})
    }
}
