//! C01 Pass-through identity.
use crate::engine::*;
use crate::gens::handlers::observers;
use crate::gens::input::{InputOpts, cut_is_interesting, input_in};
use crate::gens::sched::sched_spec;
use crate::gens::soup::has_markup;
use crate::obs::*;
use crate::tape::{Tape, fnv};
use crate::{ensure, fail};
use encoding_rs::Encoding;
use serde_json::{Value, json};

pub struct C01;

pub struct Case {
    pub input: Vec<u8>,
    pub cuts: Vec<usize>,
    pub cfg: Cfg,
}

pub fn decode(tape: &[u16]) -> Case {
    let mut t = Tape::new(tape);
    let enc = crate::gens::input::pick_encoding(&mut t, true);
    let mut cfg = Cfg { encoding: enc, ..Cfg::default() };
    cfg.strict = t.chance(1, 2);
    cfg.prealloc = *t.pick(&[0usize, 1, 64, 1024]);
    cfg.esi = t.chance(1, 4);
    let hk = t.weighted(&[2, 6]);
    if hk == 1 {
        observers(&mut t, &mut cfg, 3, 2);
    }
    let spec = sched_spec(&mut t);
    let input = input_in(&mut t, &InputOpts::default(), enc);
    let input = crate::gens::input::maybe_long(&mut t, input, 10);
    let cuts = spec.resolve(input.len());
    Case { input, cuts, cfg }
}

/// Expected output: input with each captured text-node range replaced by encode(decode(range)).
pub fn expected_passthrough(input: &[u8], enc: &'static Encoding, events: &[Ev]) -> Result<Vec<u8>, String> {
    // union of chunk ranges over all text handlers
    let mut ranges: Vec<Loc> = events.iter().filter_map(|e| if let Ev::Text { loc, .. } = e { Some(*loc) } else { None }).collect();
    ranges.sort();
    ranges.dedup();
    // merge contiguous / identical
    let mut merged: Vec<Loc> = vec![];
    for r in ranges {
        if r.0 > r.1 || r.1 > input.len() {
            return Err(format!("text range {r:?} outside the input (len {})", input.len()));
        }
        match merged.last_mut() {
            Some(l) if r.0 <= l.1 => {
                if r.0 < l.1 && !(r.0 >= l.0 && r.1 <= l.1) {
                    return Err(format!("overlapping text chunk ranges {l:?} and {r:?}"));
                }
                l.1 = l.1.max(r.1);
            }
            _ => merged.push(r),
        }
    }
    let mut out = Vec::with_capacity(input.len());
    let mut pos = 0;
    for (a, b) in merged {
        out.extend_from_slice(&input[pos..a]);
        let (s, _) = enc.decode_without_bom_handling(&input[a..b]);
        let (e, _, _) = enc.encode(&s);
        out.extend_from_slice(&e);
        pos = b;
    }
    out.extend_from_slice(&input[pos..]);
    Ok(out)
}

pub fn check_case(c: &Case, st: &mut Stats) -> PResult {
    let chunks = split(&c.input, &c.cuts);
    let r = run(&chunks, &c.cfg);
    st.eval();
    if let Some(p) = r.panicked() {
        fail!("C01: panic during pass-through rewrite: {p}");
    }
    let expected = if c.cfg.has_text_handler() {
        expected_passthrough(&c.input, c.cfg.encoding, &r.events).map_err(Failure::new)?
    } else {
        c.input.clone()
    };
    match &r.result {
        Ok(()) => {
            if r.out != expected {
                let d = first_diff(&r.out, &expected);
                fail!(
                    "C01: output differs from input at byte {d} (out len {}, expected len {}): out[..]={:?} expected={:?}",
                    r.out.len(),
                    expected.len(),
                    show(&r.out[d.saturating_sub(8)..(d + 16).min(r.out.len())]),
                    show(&expected[d.saturating_sub(8)..(d + 16).min(expected.len())])
                );
            }
        }
        Err(ErrKind::Ambiguity(_)) => {
            ensure!(c.cfg.strict, "C01: ParsingAmbiguity in non-strict mode");
            ensure!(expected.starts_with(&r.out), "C01: strict-mode ambiguity error but emitted bytes are not a prefix of the input (diff at {})", first_diff(&r.out, &expected));
            st.label("ambiguity_prefix");
        }
        Err(e) => fail!("C01: unexpected error {e:?} in an observer-only run"),
    }
    // classification
    let markup = has_markup(&c.input);
    let interesting_cut = c.cuts.iter().any(|p| cut_is_interesting(&c.input, *p));
    st.label_if(c.cfg.has_handlers(), "handlers");
    st.label_if(c.cfg.has_text_handler(), "text_handler");
    st.label_if(interesting_cut, "cut_inside_construct");
    st.label_if(c.cfg.encoding != encoding_rs::UTF_8, "non_utf8");
    st.label_if(expected != c.input, "normalised_text");
    st.label_if(c.cfg.strict, "strict");
    st.label_if(c.input.len() > 500, "long_construct");
    if markup && (c.cfg.has_handlers() || interesting_cut) {
        let mut key = c.input.clone();
        key.extend(c.cuts.iter().flat_map(|x| (*x as u32).to_le_bytes()));
        key.extend(format!("{:?}", c.cfg.to_json()).as_bytes());
        if st.nontrivial(fnv(&key)) {
            st.sample(|| json!({"input": show(&c.input), "cuts": c.cuts, "cfg": c.cfg.to_json()}));
        }
    }
    Ok(())
}

impl Prop for C01 {
    fn id(&self) -> &'static str {
        "C01"
    }
    fn fixed_cases(&self) -> Vec<FixedCase> {
        vec![FixedCase {
            name: "text-chunk-loc-gap",
            finding: Some("C14-text-chunk-loc-gap"),
            what: "'aa\u{e9}' written byte-wise under a text observer: the chunk ranges must cover byte 2",
            run: Box::new(|st| {
                let input = "aa\u{e9}".as_bytes().to_vec();
                let mut cfg = Cfg::default();
                cfg.docs.push(DocSpec { text: true, ..Default::default() });
                check_case(&Case { input, cuts: vec![1, 2, 3], cfg }, st)
            }),
        }]
    }
    fn rule(&self) -> String {
        "case = (soup/bytes input in one of 36 encodings, observer handler set, strict, prealloc, write schedule); oracle: sink bytes == input (text-handler-captured ranges normalised via one-shot decode/encode; ambiguity error => prefix). non-trivial = input has markup AND (handler set non-empty OR a cut lies strictly inside a <...> construct or a multi-byte char); distinct by hash of (input, cuts, cfg)".into()
    }
    fn assumptions(&self) -> Vec<String> {
        vec!["encoding_rs one-shot decode/encode is the codec oracle".into(), "text-node ranges reported by handlers are trusted here (validated by C14)".into()]
    }
    fn plan(&self, tier: Tier) -> Plan {
        match tier {
            Tier::Quick => Plan { cases: 6_000_000, tape_len: 160 },
            Tier::Thorough => Plan { cases: 80_000_000, tape_len: 260 },
        }
    }
    fn run(&self, tape: &[u16], st: &mut Stats) -> PResult {
        check_case(&decode(tape), st)
    }
    fn describe(&self, tape: &[u16]) -> Value {
        let c = decode(tape);
        json!({"input": show(&c.input), "input_bytes": c.input, "cuts": c.cuts, "cfg": c.cfg.to_json()})
    }
}
