//! C08 Inserted text and validated names/values cannot change markup structure.
use crate::engine::*;
use crate::gens::enc::ENCODINGS;
use crate::model::h5::{HT, tokens};
use crate::obs::*;
use crate::tape::{Tape, fnv};
use crate::{ensure, fail};
use encoding_rs::Encoding;
use serde_json::{Value, json};

pub struct C08;

const ALPHA: &[&str] = &[
    "<", ">", "&", "\"", "'", "-", "--", "-->", "--!>", "!", "/", "=", " ", "\t", "\n", "\r", "\u{c}", "\0", "a", "B", "script", "</script>", "</title>", "</style>", "</textarea>", "<!--", "]]>", "&amp;", "&lt;", "&#60;", "&quot",
    "é", "😀", "\u{fffd}", "x", "<b>", "</div>", "<script>", "\r\n", "<![CDATA[", "?>", "`", "ж", "日", "\u{a0}", "1", "on=", "a b",
];

/// (template, text mode inside the target element)
const TEMPLATES: &[(&str, &str)] = &[
    ("<p>a</p><div id=t class=c>x<b>y</b></div><p>z</p>", "Data"),
    ("<p>a</p><span id=t></span><p>z</p>", "Data"),
    ("<p>a</p><title id=t>x</title><p>z</p>", "RCData"),
    ("<p>a</p><textarea id=t>x</textarea><p>z</p>", "RCData"),
    ("<p>a</p><style id=t>x</style><p>z</p>", "RawText"),
    ("<p>a</p><xmp id=t>x</xmp><p>z</p>", "RawText"),
    ("<p>a</p><script id=t>x</script><p>z</p>", "ScriptData"),
    ("<p>a</p><svg><g id=t>x</g></svg><p>z</p>", "Data"),
    ("<p>a</p><math><mi id=t>x</mi></math><p>z</p>", "Data"),
    ("<p>a<!--c-->b</p><i id=t>x</i><!--d-->", "Data"),
];

#[derive(Clone, Debug, PartialEq, Eq)]
pub enum Ins {
    Before,
    After,
    Prepend,
    Append,
    Replace,
    SetInner,
    DocEnd,
    AttrValue,
    AttrName,
    TagName,
    CommentBefore,
    CommentAfter,
    CommentReplace,
    CommentSetText,
    TextBefore,
    TextAfter,
    TextReplace,
    EndTagBefore,
    EndTagAfter,
}

const ALL_INS: &[Ins] = &[
    Ins::Before, Ins::After, Ins::Prepend, Ins::Append, Ins::Replace, Ins::SetInner, Ins::DocEnd, Ins::AttrValue, Ins::AttrValue, Ins::AttrName, Ins::TagName, Ins::CommentBefore, Ins::CommentAfter, Ins::CommentReplace, Ins::CommentSetText, Ins::CommentSetText,
    Ins::TextBefore, Ins::TextAfter, Ins::TextReplace, Ins::EndTagBefore, Ins::EndTagAfter,
];

/// attribute lists put in place of ` id=t` on the target element: legal but unusual shapes
/// (value-less attributes, empty values, names starting with `=`, `/` separators, duplicates)
/// that a re-serialised start tag has to keep apart
const ATTR_SHAPES: &[&str] = &[
    " id=t",
    " id=t",
    " id=t b=\"\"=c d",
    " id=t b=''=c",
    " id=t b/=c e",
    " id=\"t\"=c d",
    " a id=t b c=1 a=2",
    " id=t x=\"\" y data-v=old",
    " id=t d=\"1\"x='2'/Q",
    "\tid=t\nb\x0c=\n''\n=c\n",
    // self-closing syntax on a non-void HTML element (ignored by the parser: the element keeps
    // its content and its end tag); only used on the plain HTML templates
    " id=t /",
    " id=\"t\"/",
];
const SLASH_SHAPES_FROM: usize = 10;

pub struct Case {
    pub shape: usize,
    pub template: usize,
    pub ins: Ins,
    pub s: String,
    pub enc: &'static Encoding,
    pub cut: u16,
}

pub fn decode(tape: &[u16]) -> Case {
    let mut t = Tape::new(tape);
    let ins = t.pick(ALL_INS).clone();
    let mut template = t.below(TEMPLATES.len());
    if matches!(ins, Ins::CommentBefore | Ins::CommentAfter | Ins::CommentReplace | Ins::CommentSetText) {
        template = TEMPLATES.len() - 1;
    }
    if ins == Ins::TagName {
        template = *t.pick(&[0usize, 1, 9]);
    }
    let enc = if t.chance(1, 2) { encoding_rs::UTF_8 } else { ENCODINGS[t.below(ENCODINGS.len())] };
    let cut = t.frac();
    let shape = t.below(ATTR_SHAPES.len());
    let n = t.range(0, 6);
    let mut s: String = String::new();
    let name_like = matches!(ins, Ins::TagName | Ins::AttrName) && t.chance(2, 3);
    if name_like {
        s.push(*t.pick(&['a', 'x', 'Q', 'd']));
    }
    for _ in 0..n {
        if name_like && t.chance(3, 4) {
            s.push_str(*t.pick(&["a", "-", "1", "\"", "'", "<", "B", "\u{e9}", "\0", ":", "_", "=", "\u{65e5}", "&", "`"]));
        } else {
            s.push_str(*t.pick(ALPHA));
        }
    }
    Case { shape, template, ins, s, enc, cut }
}

fn norm_text(s: &str, mode: &str) -> String {
    let s = s.replace("\r\n", "\n").replace('\r', "\n");
    if mode == "Data" { s } else { s.replace('\0', "\u{fffd}") }
}

fn escape_text(s: &str) -> String {
    s.replace('&', "&amp;").replace('<', "&lt;").replace('>', "&gt;")
}

fn merge(v: Vec<HT>) -> Vec<HT> {
    let mut out: Vec<HT> = vec![];
    for t in v {
        if let HT::Text(s, _) = &t {
            if s.is_empty() {
                continue;
            }
        }
        if let (Some(HT::Text(l, lm)), HT::Text(s, m)) = (out.last_mut(), &t) {
            if lm == m {
                l.push_str(s);
                continue;
            }
        }
        out.push(t);
    }
    out
}

fn cfg_for(c: &Case) -> Cfg {
    let mut cfg = Cfg { encoding: c.enc, ..Cfg::default() };
    let s = c.s.clone();
    let el = |op: Op| SelSpec { sel: "#t".into(), ops: vec![ScriptOp { kind: Kind::Element, nth: None, every_chunk: false, op }], ..Default::default() };
    let cm = |op: Op| DocSpec { ops: vec![ScriptOp { kind: Kind::Comment, nth: Some(0), every_chunk: false, op }], ..Default::default() };
    let tx = |op: Op| SelSpec { sel: "#t".into(), ops: vec![ScriptOp { kind: Kind::Text, nth: Some(0), every_chunk: false, op }], ..Default::default() };
    match c.ins {
        Ins::Before => cfg.sels.push(el(Op::Before(s, CT::Text))),
        Ins::After => cfg.sels.push(el(Op::After(s, CT::Text))),
        Ins::Prepend => cfg.sels.push(el(Op::Prepend(s, CT::Text))),
        Ins::Append => cfg.sels.push(el(Op::Append(s, CT::Text))),
        Ins::Replace => cfg.sels.push(el(Op::Replace(s, CT::Text))),
        Ins::SetInner => cfg.sels.push(el(Op::SetInner(s, CT::Text))),
        Ins::DocEnd => cfg.docs.push(DocSpec { ops: vec![ScriptOp { kind: Kind::DocEnd, nth: None, every_chunk: false, op: Op::Append(s, CT::Text) }], ..Default::default() }),
        Ins::AttrValue => cfg.sels.push(el(Op::SetAttr("data-v".into(), s))),
        Ins::AttrName => cfg.sels.push(el(Op::SetAttr(s, "v".into()))),
        Ins::TagName => cfg.sels.push(el(Op::SetTagName(s))),
        Ins::CommentBefore => cfg.docs.push(cm(Op::Before(s, CT::Text))),
        Ins::CommentAfter => cfg.docs.push(cm(Op::After(s, CT::Text))),
        Ins::CommentReplace => cfg.docs.push(cm(Op::Replace(s, CT::Text))),
        Ins::CommentSetText => cfg.docs.push(cm(Op::SetText(s))),
        Ins::TextBefore => cfg.sels.push(tx(Op::Before(s, CT::Text))),
        Ins::TextAfter => cfg.sels.push(tx(Op::After(s, CT::Text))),
        Ins::TextReplace => cfg.sels.push(tx(Op::Replace(s, CT::Text))),
        Ins::EndTagBefore => cfg.sels.push(el(Op::OnEndTag(vec![Op::Before(s, CT::Text)]))),
        Ins::EndTagAfter => cfg.sels.push(el(Op::OnEndTag(vec![Op::After(s, CT::Text)]))),
    }
    cfg
}

const SPECIAL_NAMES: &[&str] = &["script", "style", "title", "textarea", "xmp", "iframe", "noembed", "noframes", "noscript", "plaintext", "svg", "math", "select", "template", "frameset", "table", "html", "head", "body", "br", "img", "input", "hr", "wbr", "meta", "link", "col", "embed", "area", "base", "source", "track", "param", "keygen", "basefont", "bgsound", "p", "li", "a", "b", "i", "option", "optgroup", "form", "button", "nobr", "image", "listing", "pre"];

pub fn check_case(c: &Case, st: &mut Stats) -> PResult {
    let (tpl0, inner_mode) = TEMPLATES[c.template];
    let plain_html = matches!(c.template, 0 | 1 | 9);
    let shape = if c.shape >= SLASH_SHAPES_FROM && !plain_html { 0 } else { c.shape };
    let tpl_owned = tpl0.replacen(" id=t", ATTR_SHAPES[shape], 1);
    let tpl: &str = &tpl_owned;
    let has_comment = tpl.contains("<!--c-->");
    if matches!(c.ins, Ins::CommentBefore | Ins::CommentAfter | Ins::CommentReplace | Ins::CommentSetText) && !has_comment {
        st.excluded("comment operation on a template without a comment");
        return Ok(());
    }
    if c.ins == Ins::TagName && (inner_mode != "Data" || tpl.contains("<svg") || tpl.contains("<math")) {
        st.excluded("set_tag_name only where any ordinary name keeps content model and namespace (documented precondition)");
        return Ok(());
    }
    if c.ins == Ins::TagName && SPECIAL_NAMES.contains(&c.s.to_ascii_lowercase().as_str()) {
        st.excluded("set_tag_name to a name with a different content model (documented precondition)");
        return Ok(());
    }
    let enc = c.enc;
    let mappable = !enc.encode(&c.s).2;
    let input = tpl.as_bytes().to_vec();
    let cfg = cfg_for(c);
    let cut = crate::tape::frac_to_pos(c.cut, input.len());
    let r = run(&split(&input, &[cut]), &cfg);
    st.eval();
    if let Some(p) = r.panicked() {
        fail!("C08: panic: {p}");
    }
    ensure!(r.result.is_ok(), "C08: unexpected error {:?}", r.result);
    let api_result: Option<bool> = r.events.iter().find_map(|e| if let Ev::BailOut { h, err } = e { if h.contains('.') { Some(err.starts_with("Ok")) } else { None } } else { None });
    let out_str = enc.decode_without_bom_handling(&r.out).0.into_owned();
    let (base, got) = match guard(|| (merge(tokens(tpl)), merge(tokens(&out_str)))) {
        Ok(x) => x,
        Err(_) => {
            st.excluded("the reference parser (html5ever) panicked on this input");
            return Ok(());
        }
    };
    let si = base.iter().position(|t| matches!(t, HT::Start { attrs, .. } if attrs.iter().any(|a| a.0 == "id" && a.1 == "t"))).unwrap();
    let tname = if let HT::Start { name, .. } = &base[si] { name.clone() } else { unreachable!() };
    let ei = si + base[si..].iter().position(|t| matches!(t, HT::End(n) if *n == tname)).unwrap();
    let ci = base.iter().position(|t| matches!(t, HT::Comment(_)));
    // text as read back by an HTML parser
    let data_text = |mode: &'static str| -> HT {
        match mode {
            "Data" | "RCData" => HT::Text(norm_text(&c.s, mode), mode),
            // raw text: the escaped argument stays literal (numeric references too)
            _ => HT::Text(norm_text(&enc.decode_without_bom_handling(&enc.encode(&escape_text(&c.s)).0).0, mode), mode),
        }
    };
    let inner: &'static str = match inner_mode {
        "RCData" => "RCData",
        "RawText" => "RawText",
        "ScriptData" => "ScriptData",
        _ => "Data",
    };
    let mut exp = base.clone();
    let mut expect_unchanged_bytes = false;
    match c.ins {
        Ins::Before => exp.insert(si, data_text("Data")),
        Ins::After | Ins::EndTagAfter => exp.insert(ei + 1, data_text("Data")),
        Ins::Prepend => exp.insert(si + 1, data_text(inner)),
        Ins::Append | Ins::EndTagBefore => exp.insert(ei, data_text(inner)),
        Ins::Replace => {
            exp.drain(si..=ei);
            exp.insert(si, data_text("Data"));
        }
        Ins::SetInner => {
            exp.drain(si + 1..ei);
            exp.insert(si + 1, data_text(inner));
        }
        Ins::DocEnd => exp.push(data_text("Data")),
        Ins::TextBefore | Ins::TextAfter | Ins::TextReplace => {
            // applies to the final (empty) chunk of the first text node inside #t: right after that node
            let first_text = (si + 1..ei).find(|i| matches!(exp[*i], HT::Text(..)));
            match first_text {
                Some(i) => exp.insert(i + 1, data_text(inner)),
                None => {}
            }
        }
        Ins::CommentBefore => exp.insert(ci.unwrap(), data_text("Data")),
        Ins::CommentAfter => exp.insert(ci.unwrap() + 1, data_text("Data")),
        Ins::CommentReplace => exp[ci.unwrap()] = data_text("Data"),
        Ins::CommentSetText => match api_result {
            Some(true) => exp[ci.unwrap()] = HT::Comment(norm_text(&c.s, "comment")),
            Some(false) => expect_unchanged_bytes = true,
            None => fail!("C08: set_text result not observed"),
        },
        Ins::AttrValue => match api_result {
            Some(true) => {
                if let HT::Start { attrs, .. } = &mut exp[si] {
                    match attrs.iter_mut().find(|a| a.0 == "data-v") {
                        Some(a) => a.1 = norm_text(&c.s, "attr"),
                        None => attrs.push(("data-v".into(), norm_text(&c.s, "attr"))),
                    }
                }
            }
            _ => fail!("C08: set_attribute with a valid name failed"),
        },
        Ins::AttrName => match api_result {
            Some(true) => {
                if let HT::Start { attrs, .. } = &mut exp[si] {
                    let n = c.s.to_ascii_lowercase().replace('\0', "\u{fffd}");
                    if !attrs.iter().any(|a| a.0 == n) {
                        attrs.push((n, "v".into()));
                    } else {
                        attrs.iter_mut().find(|a| a.0 == n).unwrap().1 = "v".into();
                    }
                }
            }
            Some(false) => expect_unchanged_bytes = true,
            None => fail!("C08: set_attribute result not observed"),
        },
        Ins::TagName => match api_result {
            Some(true) => {
                let n = c.s.to_ascii_lowercase().replace('\0', "\u{fffd}");
                if let HT::Start { name, .. } = &mut exp[si] {
                    *name = n.clone();
                }
                exp[ei] = HT::End(n);
            }
            Some(false) => expect_unchanged_bytes = true,
            None => fail!("C08: set_tag_name result not observed"),
        },
    }
    let what = || format!("op={:?} S={:?} enc={} template={tpl:?}\n  output={:?}", c.ins, c.s, enc.name(), out_str);
    if expect_unchanged_bytes {
        ensure!(r.out == input, "C08: the API call was rejected but the token was not left unchanged: {}", what());
        st.label("rejected_unchanged");
        return Ok(());
    }
    // plain strings must be accepted
    if matches!(c.ins, Ins::CommentSetText | Ins::AttrName | Ins::TagName) && !c.s.is_empty() && c.s.chars().all(|ch| ch.is_ascii_alphanumeric()) && c.s.as_bytes()[0].is_ascii_alphabetic() {
        ensure!(api_result == Some(true), "C08: harmless string {:?} rejected by {:?}", c.s, c.ins);
    }
    let exp = merge(exp);
    // attribute values with '&' are markup-level by contract: only names/count are compared via html5ever
    let amp_value = c.ins == Ins::AttrValue && c.s.contains('&');
    let unmappable_raw = !mappable && matches!(c.ins, Ins::AttrValue | Ins::CommentSetText);
    let strip_attr_vals = |v: &[HT]| -> Vec<HT> {
        v.iter()
            .map(|t| match t {
                HT::Start { name, attrs, sc } => HT::Start { name: name.clone(), attrs: attrs.iter().map(|a| (a.0.clone(), if a.0 == "data-v" { String::new() } else { a.1.clone() })).collect(), sc: *sc },
                o => o.clone(),
            })
            .collect()
    };
    let (g2, e2) = if amp_value || unmappable_raw { (strip_attr_vals(&got), strip_attr_vals(&exp)) } else { (got.clone(), exp.clone()) };
    if g2 != e2 {
        let k = g2.iter().zip(e2.iter()).position(|(a, b)| a != b).unwrap_or(g2.len().min(e2.len()));
        fail!("C08: re-parsing the output (html5ever) does not give the original structure plus exactly the inserted item, at token #{k}:\n  got      {:?}\n  expected {:?}\n  {}", g2.get(k), e2.get(k), what());
    }
    // markup-level contract of attribute values: raw re-read through lol-html
    let mut obs = Cfg { encoding: enc, ..Cfg::default() };
    obs.docs.push(DocSpec { doctype: true, comments: true, text: true, end: false, ops: vec![] });
    obs.sels.push(SelSpec { sel: "*".into(), el: true, end_tag: true, ..Default::default() });
    let rr = run(&[&r.out], &obs);
    st.eval();
    ensure!(rr.result.is_ok() && rr.panicked().is_none(), "C08: re-parsing the output with lol-html failed: {:?}", rr.result);
    if c.ins == Ins::AttrValue && mappable {
        let want = c.s.replace('"', "&quot;");
        let found = rr.events.iter().any(|e| matches!(e, Ev::Element { attrs, .. } if attrs.iter().any(|a| a.name == "data-v" && a.value == want)));
        ensure!(found, "C08: the raw attribute value re-read through lol-html is not the argument with '\"' escaped (want {want:?}): {}", what());
    }
    // same structure through lol-html's own tokenizer: kinds and names
    let shape_lol: Vec<String> = norm(&rr.events).map_err(Failure::new)?.iter().filter_map(|e| match e {
        // html5ever drops repeated attribute names; count distinct names
        Ev::Element { name, attrs, .. } => Some(format!("<{name} {}>", attrs.iter().map(|a| a.name.as_str()).collect::<std::collections::BTreeSet<_>>().len())),
        Ev::EndTag { name, .. } => Some(format!("</{name}>")),
        Ev::Comment { .. } => Some("<!---->".into()),
        Ev::Text { text, .. } if !text.is_empty() => Some("#text".into()),
        _ => None,
    }).collect();
    let shape_exp: Vec<String> = exp.iter().map(|t| match t {
        HT::Start { name, attrs, .. } => format!("<{name} {}>", attrs.len()),
        HT::End(n) => format!("</{n}>"),
        HT::Comment(_) => "<!---->".into(),
        HT::Text(..) => "#text".into(),
        HT::Doctype { .. } => "<!doctype>".into(),
    }).collect();
    // lol-html reports one text node per run of text between non-text tokens; html5ever splits by mode only
    let dedup = |v: Vec<String>| -> Vec<String> { let mut o: Vec<String> = vec![]; for x in v { if x == "#text" && o.last().map(|l| l == "#text").unwrap_or(false) { continue; } o.push(x); } o };
    let (a, b) = (dedup(shape_lol), dedup(shape_exp));
    ensure!(a == b || c.s.contains('\0') && c.ins == Ins::TagName, "C08: lol-html's own re-tokenisation of the output has a different structure:\n  got      {a:?}\n  expected {b:?}\n  {}", what());
    let dangerous = c.s.chars().any(|ch| "<>&\"'=/-! \t\n\r\u{c}\0".contains(ch)) || !mappable;
    st.label(&format!("{:?}", c.ins));
    st.label(&format!("mode_{inner_mode}"));
    st.label_if(shape > 1, "unusual_attribute_list");
    st.label_if(shape >= SLASH_SHAPES_FROM, "self_closing_syntax_on_html_element");
    st.label_if(!mappable, "unmappable_char");
    st.label_if(api_result == Some(true), "api_accepted");
    if dangerous {
        if st.nontrivial(fnv(format!("{}{}{:?}{}{}", c.template, c.shape, c.ins, c.s, enc.name()).as_bytes())) {
            st.sample(|| json!({"template": tpl, "op": format!("{:?}", c.ins), "string": c.s, "encoding": enc.name(), "output": out_str}));
        }
    }
    Ok(())
}

impl Prop for C08 {
    fn id(&self) -> &'static str {
        "C08"
    }
    fn rule(&self) -> String {
        "case = (one of 10 templates covering Data, RCDATA, RAWTEXT, script, SVG, MathML-integration-point and comment contexts, the target element carrying one of 11 attribute-list shapes [plain, self-closing syntax on a non-void HTML element, empty quoted value followed by an `=`-led name, `/` separator, value-less, duplicate, unquoted/quoted without separating space, odd whitespace]; one of 19 insertion points: element before/after/prepend/append/replace/set_inner_content, end-tag before/after, text-chunk and comment before/after/replace, document end (all ContentType::Text), set_attribute value, set_attribute name, set_tag_name, Comment::set_text; a string of 0-6 pieces from an alphabet biased to < > & \" ' - ! / = whitespace CR FF NUL comment/CDATA/script terminators, entities, non-BMP and unmappable characters; one of 36 encodings; one cut). oracle: the output decoded and re-parsed by html5ever (tokenizer + tree builder) == the template's token list plus exactly the inserted text node / attribute / comment text / renamed tag pair (text compared after the parser's own entity decoding; raw-text contexts compare the escaped form; attribute values are markup-level: raw re-read through lol-html must equal the argument with '\"' escaped); lol-html's own re-tokenisation has the same shape; a rejected call leaves the output byte-identical to the input; plain alphanumeric strings must be accepted. non-trivial = the string contains a markup-significant, whitespace/control or unmappable character".into()
    }
    fn assumptions(&self) -> Vec<String> {
        vec!["html5ever 0.39 as the re-parser; WHATWG preprocessing (CR->LF, NUL->U+FFFD outside the data state) applied to the expected text".into(), "set_tag_name only on ordinary elements and to names without a special content model (documented precondition)".into()]
    }
    fn plan(&self, tier: Tier) -> Plan {
        match tier {
            Tier::Quick => Plan { cases: 2_000_000, tape_len: 40 },
            Tier::Thorough => Plan { cases: 12_000_000, tape_len: 48 },
        }
    }
    fn run(&self, tape: &[u16], st: &mut Stats) -> PResult {
        check_case(&decode(tape), st)
    }
    fn describe(&self, tape: &[u16]) -> Value {
        let c = decode(tape);
        let shape = if c.shape >= SLASH_SHAPES_FROM && !matches!(c.template, 0 | 1 | 9) { 0 } else { c.shape };
        json!({"template": TEMPLATES[c.template].0.replacen(" id=t", ATTR_SHAPES[shape], 1), "op": format!("{:?}", c.ins), "string": c.s, "encoding": c.enc.name(), "cut": c.cut})
    }
}
