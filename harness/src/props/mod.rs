pub mod c01;
pub mod c02;
#[cfg(feature = "int")]
pub mod c03;
pub mod c04;
pub mod c05;
pub mod c06;
pub mod c07;
pub mod c08;
pub mod c09;
pub mod c10;
pub mod faults;
pub mod c13;
pub mod c14;
pub mod c15;
pub mod c15perf;
pub mod c16;
pub mod c18;

use crate::engine::Prop;

pub fn all() -> Vec<Box<dyn Prop>> {
    #[allow(unused_mut)]
    let mut v: Vec<Box<dyn Prop>> = vec![Box::new(c01::C01), Box::new(c02::C02), Box::new(c04::C04), Box::new(c05::C05), Box::new(c06::C06), Box::new(c07::C07), Box::new(c08::C08), Box::new(c09::C09), Box::new(c10::C10), Box::new(faults::C11), Box::new(faults::C12), Box::new(c13::C13), Box::new(c14::C14), Box::new(c15::C15), Box::new(c16::C16), Box::new(c18::C18)];
    #[cfg(feature = "int")]
    v.push(Box::new(c03::C03));
    v
}
