pub mod c01;

use crate::engine::Prop;

pub fn all() -> Vec<Box<dyn Prop>> {
    vec![Box::new(c01::C01)]
}
