//! C16 Element and attribute read API reflects the start tag exactly (and later edits).
use crate::engine::*;
use crate::gens::doc::{ATTR_NAMES, Doc, DocOpts, TK, doc};
use crate::gens::input::pick_encoding;
use crate::gens::sched::sched_spec;
use crate::model::h5::{HT, tokens_plain};
use crate::model::tree::{Elem, induce};
use crate::obs::{show, split};
use crate::tape::{Tape, fnv};
use crate::{ensure, fail};
use lol_html::html_content::Element;
use lol_html::{AsciiCompatibleEncoding, HtmlRewriter, Settings, element};
use serde_json::{Value, json};
use std::cell::RefCell;
use std::rc::Rc;

pub struct C16;

#[derive(Clone, Debug, PartialEq, Eq)]
pub enum Edit {
    SetAttr(String, String),
    RemoveAttr(String),
    SetTagName(String),
}

pub struct Case {
    pub d: Doc,
    pub schedules: Vec<Vec<usize>>,
    pub edits: Vec<Edit>,
    pub esi: bool,
    /// other registrations with do-nothing handlers (they change which path of the selector VM
    /// produces the element: name-only, attribute bail-out, jumps), and whether they precede `*`
    pub companions: Vec<String>,
    pub companions_first: bool,
}

const EDIT_ATTR_NAMES: &[&str] = &["id", "ID", "class", "x", "new-attr", "NEW", "href", "", "a b", "a=b", "a/b", "a>b", "q\"", "\u{e9}"];
const EDIT_VALUES: &[&str] = &["v", "", "a b", "\"q\"", "a&b", "<x>", "'", "\u{e9}"];
const EDIT_TAGS: &[&str] = &["div", "SPAN", "x-y", "", "1a", "a b", "a/", "a>", "\u{e9}", "z\u{e9}"];

pub fn decode(tape: &[u16]) -> Case {
    let mut t = Tape::new(tape);
    let enc = pick_encoding(&mut t, true);
    let ne = t.range(0, 3);
    let mut edits = vec![];
    for _ in 0..ne {
        edits.push(match t.below(3) {
            0 => Edit::SetAttr(t.pick(EDIT_ATTR_NAMES).to_string(), t.pick(EDIT_VALUES).to_string()),
            1 => Edit::RemoveAttr(t.pick(EDIT_ATTR_NAMES).to_string()),
            _ => Edit::SetTagName(t.pick(EDIT_TAGS).to_string()),
        });
    }
    let esi = t.chance(1, 5);
    let companions: Vec<String> = if t.chance(1, 2) { crate::gens::sel::selector_set(&mut t, 3, true).iter().map(crate::model::css::render).collect() } else { vec![] };
    let companions_first = t.chance(1, 2);
    let specs: Vec<_> = (0..3).map(|_| sched_spec(&mut t)).collect();
    let d = doc(&mut t, &DocOpts { max_items: 8, max_attrs: 5, enc, ..DocOpts::default() });
    let n = d.bytes.len();
    let mut schedules: Vec<Vec<usize>> = vec![vec![]];
    if n <= 160 {
        // every 1-cut that falls inside a start tag
        for tk in d.toks.iter().filter(|t| t.kind == TK::Start) {
            for p in tk.start + 1..tk.end {
                schedules.push(vec![p]);
            }
        }
    } else {
        for sp in &specs {
            schedules.push(sp.resolve(n));
        }
    }
    Case { d, schedules, edits, esi, companions, companions_first }
}

#[derive(Clone, Debug, PartialEq, Eq, Default)]
pub struct Reads {
    pub name: String,
    pub name_pc: String,
    pub ns: String,
    pub self_closing: bool,
    pub can_have_content: bool,
    pub attrs: Vec<(String, String, String)>,
    pub lookups: Vec<(String, Option<String>, bool)>,
    pub edit_results: Vec<String>,
    pub after_name: String,
    pub after_name_pc: String,
    pub after_attrs: Vec<(String, String, String)>,
    pub after_lookups: Vec<(String, Option<String>, bool)>,
    pub loc: (usize, usize),
    /// the StartTag view (`el.start_tag()`) agrees with the Element getters, before and after edits
    pub start_tag_view_differs: Vec<String>,
}

fn valid_lookup_name(n: &str) -> bool {
    !n.is_empty() && !n.bytes().any(|c| matches!(c, b' ' | b'\n' | b'\r' | b'\t' | b'\x0c' | b'/' | b'>' | b'='))
}

fn probes(attr_names_pc: &[String], edits: &[Edit]) -> Vec<String> {
    let mut p: Vec<String> = vec![];
    for n in attr_names_pc {
        p.push(n.clone());
        p.push(n.to_ascii_uppercase());
        p.push(n.to_ascii_lowercase());
    }
    for n in ATTR_NAMES.iter().take(6) {
        p.push(n.to_string());
    }
    p.push("no-such-attr".into());
    for e in edits {
        match e {
            Edit::SetAttr(n, _) | Edit::RemoveAttr(n) => p.push(n.clone()),
            _ => {}
        }
    }
    p.retain(|n| valid_lookup_name(n));
    p.dedup();
    p
}

fn read_attrs(el: &Element<'_, '_>) -> Vec<(String, String, String)> {
    el.attributes().iter().map(|a| (a.name(), a.name_preserve_case(), a.value())).collect()
}

fn run_real(c: &Case, cuts: &[usize]) -> Result<Vec<Reads>, String> {
    let log: Rc<RefCell<Vec<Reads>>> = Default::default();
    let edits = c.edits.clone();
    let enc = c.d.enc;
    let r = guard(|| -> Result<(), String> {
        let lg = log.clone();
        let mut st = Settings::new().with_encoding(AsciiCompatibleEncoding::new(enc).unwrap()).with_strict(false).with_enable_esi_tags(c.esi);
        let noop = |st: Settings<'static, 'static>, sels: &[String]| -> Result<Settings<'static, 'static>, String> {
            let mut st = st;
            for s in sels {
                let sel: lol_html::Selector = s.parse().map_err(|e| format!("companion selector {s:?} refused: {e:?}"))?;
                st = st.append_element_content_handler((std::borrow::Cow::Owned(sel), lol_html::ElementContentHandlers::default().element(|_el: &mut Element<'_, '_>| Ok(()))));
            }
            Ok(st)
        };
        if c.companions_first {
            st = noop(st, &c.companions)?;
        }
        st = st
            .append_element_content_handler(element!("*", move |el: &mut Element<'_, '_>| {
                let mut r = Reads { name: el.tag_name(), name_pc: el.tag_name_preserve_case(), ns: el.namespace_uri().to_string(), self_closing: el.is_self_closing(), can_have_content: el.can_have_content(), attrs: read_attrs(el), ..Default::default() };
                let l = el.source_location().bytes();
                r.loc = (l.start, l.end);
                let names: Vec<String> = r.attrs.iter().map(|a| a.1.clone()).collect();
                let ps = probes(&names, &edits);
                for p in &ps {
                    r.lookups.push((p.clone(), el.get_attribute(p), el.has_attribute(p)));
                }
                for e in &edits {
                    match e {
                        Edit::SetAttr(n, v) => r.edit_results.push(format!("{:?}", el.set_attribute(n, v).is_ok())),
                        Edit::RemoveAttr(n) => {
                            el.remove_attribute(n);
                            r.edit_results.push("()".into());
                        }
                        Edit::SetTagName(n) => r.edit_results.push(format!("{:?}", el.set_tag_name(n).is_ok())),
                    }
                }
                r.after_name = el.tag_name();
                r.after_name_pc = el.tag_name_preserve_case();
                r.after_attrs = read_attrs(el);
                for p in &ps {
                    r.after_lookups.push((p.clone(), el.get_attribute(p), el.has_attribute(p)));
                }
                // the same data through Element::start_tag()
                {
                    let (n, npc, attrs_e, sc_e, ns_e) = (el.tag_name(), el.tag_name_preserve_case(), read_attrs(el), el.is_self_closing(), el.namespace_uri());
                    let st = el.start_tag();
                    if st.name() != n {
                        r.start_tag_view_differs.push(format!("name {:?} vs {n:?}", st.name()));
                    }
                    if st.name_preserve_case() != npc {
                        r.start_tag_view_differs.push("name_preserve_case".into());
                    }
                    let attrs_s: Vec<(String, String, String)> = st.attributes().iter().map(|a| (a.name(), a.name_preserve_case(), a.value())).collect();
                    if attrs_s != attrs_e {
                        r.start_tag_view_differs.push(format!("attributes {attrs_s:?} vs {attrs_e:?}"));
                    }
                    if st.self_closing() != sc_e || st.namespace_uri() != ns_e {
                        r.start_tag_view_differs.push("self_closing/namespace".into());
                    }
                    for p in &ps {
                        if st.get_attribute(p) != lookup_real(&attrs_e, p).0 || st.has_attribute(p) != lookup_real(&attrs_e, p).1 {
                            r.start_tag_view_differs.push(format!("lookup {p:?}"));
                        }
                    }
                }
                lg.borrow_mut().push(r);
                Ok(())
            }));
        if !c.companions_first {
            st = noop(st, &c.companions)?;
        }
        let mut rw = HtmlRewriter::new(st, |_: &[u8]| {});
        for ch in split(&c.d.bytes, cuts) {
            rw.write(ch).map_err(|e| e.to_string())?;
        }
        rw.end().map_err(|e| e.to_string())
    });
    match r {
        Err(p) => Err(format!("panic: {p}")),
        Ok(Err(e)) => Err(format!("error: {e}")),
        Ok(Ok(())) => Ok(log.take()),
    }
}

fn lookup_real(attrs: &[(String, String, String)], p: &str) -> (Option<String>, bool) {
    match attrs.iter().find(|a| a.1.eq_ignore_ascii_case(p)) {
        Some(a) => (Some(a.2.clone()), true),
        None => (None, false),
    }
}

fn encodable(s: &str, enc: &'static encoding_rs::Encoding) -> bool {
    !enc.encode(s).2
}

fn lookup(attrs: &[(String, String, String)], p: &str) -> (Option<String>, bool) {
    match attrs.iter().find(|a| a.1.eq_ignore_ascii_case(p)) {
        Some(a) => (Some(a.2.clone()), true),
        None => (None, false),
    }
}

fn model(c: &Case, e: &Elem) -> Reads {
    let enc = c.d.enc;
    let tok = &c.d.toks[e.tok];
    let mut r = Reads {
        name: e.name.clone(),
        name_pc: e.name_pc.clone(),
        ns: e.ns.uri().to_string(),
        self_closing: e.self_closing,
        can_have_content: e.can_have_content,
        attrs: e.attrs.iter().map(|a| (a.name.clone(), a.name_pc.clone(), a.value.clone())).collect(),
        loc: (tok.start, tok.end),
        ..Default::default()
    };
    let names: Vec<String> = r.attrs.iter().map(|a| a.1.clone()).collect();
    let ps = probes(&names, &c.edits);
    for p in &ps {
        let (g, h) = lookup(&r.attrs, p);
        r.lookups.push((p.clone(), g, h));
    }
    let mut attrs = r.attrs.clone();
    let (mut name, mut name_pc) = (r.name.clone(), r.name_pc.clone());
    for ed in &c.edits {
        match ed {
            Edit::SetAttr(n, v) => {
                let ok = valid_lookup_name(n) && encodable(n, enc);
                r.edit_results.push(format!("{ok:?}"));
                if ok {
                    let lower = n.to_ascii_lowercase();
                    match attrs.iter_mut().find(|a| a.1.eq_ignore_ascii_case(&lower)) {
                        Some(a) => a.2 = v.clone(),
                        None => attrs.push((lower.clone(), lower, v.clone())),
                    }
                }
            }
            Edit::RemoveAttr(n) => {
                r.edit_results.push("()".into());
                if valid_lookup_name(n) && encodable(n, enc) {
                    attrs.retain(|a| !a.1.eq_ignore_ascii_case(n));
                }
            }
            Edit::SetTagName(n) => {
                let ok = n.as_bytes().first().is_some_and(|c| c.is_ascii_alphabetic()) && !n.bytes().any(|c| matches!(c, b' ' | b'\n' | b'\r' | b'\t' | b'\x0c' | b'/' | b'>')) && encodable(n, enc);
                r.edit_results.push(format!("{ok:?}"));
                if ok {
                    name = n.to_ascii_lowercase();
                    name_pc = n.clone();
                }
            }
        }
    }
    r.after_name = name;
    r.after_name_pc = name_pc;
    r.after_attrs = attrs.clone();
    for p in &ps {
        let (g, h) = lookup(&attrs, p);
        r.after_lookups.push((p.clone(), g, h));
    }
    r
}

pub fn check_case(c: &Case, st: &mut Stats) -> PResult {
    let tree = induce(&c.d, c.esi);
    // values used in edits must be representable, so that the read-back is the value itself
    let enc = c.d.enc;
    if c.edits.iter().any(|e| matches!(e, Edit::SetAttr(_, v) if !encodable(v, enc))) {
        st.excluded("edit value not representable in the document encoding");
        return Ok(());
    }
    let expected: Vec<Reads> = tree.elems.iter().map(|e| model(c, e)).collect();
    for cuts in &c.schedules {
        st.eval();
        let got = run_real(c, cuts).map_err(|e| Failure::new(format!("C16: {e} (cuts {cuts:?})")))?;
        if got != expected {
            let k = got.iter().zip(expected.iter()).position(|(a, b)| a != b).unwrap_or(got.len().min(expected.len()));
            fail!("C16: element #{k} reads differ from the start tag's syntax (cuts {cuts:?}):\n  got      {:?}\n  expected {:?}", got.get(k), expected.get(k));
        }
    }
    // html5ever's tag token for each start tag in isolation
    let mut h5_checked = 0;
    if enc == encoding_rs::UTF_8 {
        for e in &tree.elems {
            let tok = &c.d.toks[e.tok];
            let raw = &c.d.bytes[tok.start..tok.end];
            if raw.iter().any(|b| matches!(b, b'&' | 0 | b'\r')) {
                continue;
            }
            let Ok(s) = std::str::from_utf8(raw) else { continue };
            let Ok(toks) = guard(|| tokens_plain(s)) else { continue };
            let Some(HT::Start { name, attrs, sc }) = toks.first() else { fail!("C16: html5ever did not produce a start tag for {s:?}: {toks:?}") };
            let mut dedup: Vec<(String, String)> = vec![];
            for a in &e.attrs {
                if !dedup.iter().any(|(n, _)| *n == a.name) {
                    dedup.push((a.name.clone(), a.value.clone()));
                }
            }
            ensure!(*name == e.name && *attrs == dedup && *sc == e.self_closing, "C16: reference model and html5ever disagree on {s:?}: model=({:?},{:?},{}) html5ever=({name:?},{attrs:?},{sc})", e.name, dedup, e.self_closing);
            h5_checked += 1;
        }
    }
    st.label_if(h5_checked > 0, "html5ever_tag_cross_check");
    let rich = tree.elems.iter().any(|e| {
        let tok = &c.d.toks[e.tok];
        let raw = &c.d.bytes[tok.start..tok.end];
        let styles = [raw.contains(&b'"'), raw.contains(&b'\''), e.attrs.iter().any(|a| a.value_range.0 > 0 && !matches!(c.d.bytes[a.value_range.0 - 1], b'"' | b'\'') && a.value_range.0 != a.value_range.1)];
        let dup = e.attrs.iter().enumerate().any(|(i, a)| e.attrs[..i].iter().any(|b| b.name == a.name));
        e.attrs.len() >= 3 && (styles.iter().filter(|x| **x).count() >= 2 || dup)
    });
    st.label_if(rich, "rich_tag");
    st.label_if(c.schedules.len() > 4, "cuts_inside_tags");
    st.label_if(!c.edits.is_empty(), "edits");
    st.label_if(c.d.has_island, "island");
    st.label_if(enc != encoding_rs::UTF_8, "non_utf8");
    st.label_if(!c.companions.is_empty(), "companion_selectors");
    if rich || c.schedules.len() > 4 {
        let mut key = c.d.bytes.clone();
        key.extend(format!("{:?}", c.edits).as_bytes());
        if st.nontrivial(fnv(&key)) {
            st.sample(|| json!({"doc": show(&c.d.bytes), "encoding": enc.name(), "edits": format!("{:?}", c.edits), "schedules": c.schedules.len()}));
        }
    }
    Ok(())
}

impl Prop for C16 {
    fn id(&self) -> &'static str {
        "C16"
    }
    fn rule(&self) -> String {
        "case = (structured document with arbitrary attribute syntax in HTML/SVG/MathML context, one of 36 encodings, edit script of set_attribute/remove_attribute/set_tag_name, in half of the cases 1-3 further registrations with generated selectors [full grammar] and do-nothing handlers before or after the reading `*` handler, schedules: every 1-cut inside every start tag for docs <= 160 bytes, else random); oracle: tag_name/preserve-case, attributes() (source order, raw values), get/has_attribute (ASCII-ci, first duplicate), is_self_closing, can_have_content, namespace_uri equal the R-attr/R-tree model derived from the bytes, reads after edits reflect them, and R-attr agrees with html5ever's tag token. non-trivial = a tag with >= 3 attributes and (>= 2 quote styles or a duplicate), or cuts inside tags; distinct by hash(doc,edits)".into()
    }
    fn assumptions(&self) -> Vec<String> {
        vec![
            "lookups use names set_attribute would accept (no whitespace, '/', '>', '='): an attribute literally named '=x' is not probed".into(),
            "edit values are representable in the document encoding (unmappable characters are C13's subject)".into(),
            "html5ever 0.39 tokenizer as WHATWG reference for tags without '&', NUL, CR".into(),
        ]
    }
    fn plan(&self, tier: Tier) -> Plan {
        match tier {
            Tier::Quick => Plan { cases: 250_000, tape_len: 260 },
            Tier::Thorough => Plan { cases: 4_000_000, tape_len: 380 },
        }
    }
    fn run(&self, tape: &[u16], st: &mut Stats) -> PResult {
        check_case(&decode(tape), st)
    }
    fn describe(&self, tape: &[u16]) -> Value {
        let c = decode(tape);
        json!({"doc": show(&c.d.bytes), "doc_bytes": c.d.bytes, "encoding": c.d.enc.name(), "edits": format!("{:?}", c.edits), "esi": c.esi, "companion_selectors": c.companions, "companions_first": c.companions_first, "schedules": c.schedules.len()})
    }
}
