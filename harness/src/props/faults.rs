//! Fault enumeration shared by C11 (graceful bail-out) and C12 (fail-stop + sink protocol):
//! every handler invocation index fails once; the memory limit is swept.
use crate::engine::*;
use crate::gens::handlers::{mutators, observers};
use crate::gens::input::{InputOpts, input_in, pick_encoding};
use crate::gens::sched::sched_spec;
use crate::obs::*;
use crate::tape::{Tape, fnv};
use crate::{ensure, fail};
use serde_json::{Value, json};

pub struct Case {
    pub input: Vec<u8>,
    pub cuts: Vec<usize>,
    pub cfg: Cfg,
    pub mem_limits: Vec<usize>,
}

fn sanitize(mut v: Vec<u8>) -> Vec<u8> {
    for b in v.iter_mut() {
        if *b == b'@' {
            *b = b'a';
        }
    }
    v
}

fn mem_sweep(t: &mut Tape<'_>) -> Vec<usize> {
    // every value in a low window, then geometric; window start from the tape
    let lo = *t.pick(&[0usize, 0, 8, 40, 100]);
    let mut v: Vec<usize> = (lo..lo + 24).collect();
    let mut m = 128usize;
    while m <= 16384 {
        v.push(m + t.below(m / 2 + 1));
        m *= 2;
    }
    v
}

/// insert-only mutators emitting unique sentinels
fn sentinel_mutators(t: &mut Tape<'_>, cfg: &mut Cfg) {
    let n = t.range(1, 3);
    for k in 0..n {
        if cfg.sels.is_empty() || t.chance(1, 2) {
            cfg.sels.push(SelSpec { sel: t.pick(crate::gens::handlers::SPARSE_SELECTORS).to_string(), ..Default::default() });
        }
        let i = t.below(cfg.sels.len());
        let s = format!("@@I{k}@@");
        let (kind, op) = match t.below(10) {
            7 => (Kind::Element, Op::StreamBefore(vec![s, String::new()], CT::Html)),
            8 => (Kind::Element, Op::StreamAfter(vec![s, String::new()], CT::Html)),
            9 => (Kind::EndTag, Op::StreamBefore(vec![s, String::new()], CT::Html)),
            0 => (Kind::Element, Op::Before(s, CT::Html)),
            1 => (Kind::Element, Op::After(s, CT::Html)),
            2 => (Kind::Element, Op::Prepend(s, CT::Html)),
            3 => (Kind::Element, Op::Append(s, CT::Html)),
            4 => (Kind::Comment, Op::Before(s, CT::Html)),
            5 => (Kind::Text, Op::After(s, CT::Html)),
            _ => (Kind::EndTag, Op::Before(s, CT::Html)),
        };
        cfg.sels[i].ops.push(ScriptOp { kind, nth: None, every_chunk: false, op });
    }
}

pub fn decode_c11(tape: &[u16]) -> Case {
    let mut t = Tape::new(tape);
    let enc = pick_encoding(&mut t, true);
    let mut cfg = Cfg { encoding: enc, ..Cfg::default() };
    cfg.strict = t.chance(1, 4);
    cfg.graceful_handler = t.chance(3, 4);
    cfg.graceful_mem = t.chance(3, 4);
    cfg.prealloc = 0;
    observers(&mut t, &mut cfg, 3, 2);
    if t.chance(1, 3) {
        sentinel_mutators(&mut t, &mut cfg);
    }
    let nb = t.range(0, 3);
    for k in 0..nb {
        cfg.bail_outs.push(if t.chance(4, 5) { Some(format!("@@B{k}@@")) } else { None });
    }
    let mem_limits = mem_sweep(&mut t);
    let spec = sched_spec(&mut t);
    let long = t.chance(1, 8);
    let mut input = sanitize(input_in(&mut t, &InputOpts { max_frags: 12, safe_only: true, ..Default::default() }, enc));
    if long {
        // text longer than the decoder's 1 KiB buffer: one text node arrives in several chunks
        let p = crate::gens::enc::pool(crate::gens::enc::index_of(enc));
        let ch = p.safe.first().copied().unwrap_or('x').to_string();
        let (b, _, _) = enc.encode(&ch);
        let mut at = crate::tape::frac_to_pos(t.frac(), input.len());
        // only at a character boundary (all multi-byte characters here have bytes >= 0x80)
        while at > 0 && input[at - 1] >= 0x80 {
            at -= 1;
        }
        let mut v = input[..at].to_vec();
        if t.chance(1, 2) {
            // a long ASCII run (served by the decoder's fast path up to its 1 KiB buffer)
            // directly followed by a multi-byte character (slow path) in the same text node
            let n = *t.pick(&[1023usize, 1024, 1025, 1100, 2047, 2048, 2100]);
            v.extend(std::iter::repeat_n(b'x', n));
            v.extend_from_slice(&b);
            v.extend_from_slice(b"tail");
        } else {
            for _ in 0..(1500 / b.len().max(1)) {
                v.extend_from_slice(&b);
            }
        }
        v.extend_from_slice(&input[at..]);
        input = v;
    }
    let cuts = spec.resolve(input.len());
    Case { input, cuts, cfg, mem_limits }
}

pub fn decode_c12(tape: &[u16]) -> Case {
    let mut t = Tape::new(tape);
    let enc = pick_encoding(&mut t, true);
    let mut cfg = Cfg { encoding: enc, ..Cfg::default() };
    cfg.strict = t.chance(1, 4);
    cfg.graceful_handler = t.chance(1, 3);
    cfg.graceful_mem = t.chance(1, 3);
    cfg.adjust_charset = t.chance(1, 3);
    cfg.esi = t.chance(1, 5);
    cfg.prealloc = *t.pick(&[0usize, 0, 16]);
    match t.weighted(&[1, 3, 5]) {
        0 => {}
        1 => observers(&mut t, &mut cfg, 3, 2),
        _ => {
            observers(&mut t, &mut cfg, 2, 1);
            mutators(&mut t, &mut cfg);
            // empty-string mutations on purpose
            for s in cfg.sels.iter_mut() {
                for o in s.ops.iter_mut() {
                    if t.chance(1, 2) {
                        empty_strings(&mut o.op);
                    }
                }
            }
            for d in cfg.docs.iter_mut() {
                for o in d.ops.iter_mut() {
                    if t.chance(1, 2) {
                        empty_strings(&mut o.op);
                    }
                }
            }
        }
    }
    if t.chance(1, 5) {
        // a handler on every element that edits with empty strings on purpose
        let e = String::new;
        let op = match t.below(6) {
            0 => Op::OnEndTag(vec![Op::SetTagName(e())]),
            1 => Op::OnEndTag(vec![Op::Before(e(), CT::Html), Op::After(e(), CT::Text)]),
            2 => Op::SetAttr("x".into(), e()),
            3 => Op::SetInner(e(), CT::Text),
            4 => Op::StreamReplace(vec![e(), e()], CT::Html),
            _ => Op::Replace(e(), CT::Html),
        };
        cfg.sels.push(SelSpec { sel: "*".into(), ops: vec![ScriptOp { kind: Kind::Element, nth: if t.chance(1, 2) { None } else { Some(t.below(3)) }, every_chunk: false, op }], ..Default::default() });
    }
    let nb = t.range(0, 2);
    for k in 0..nb {
        cfg.bail_outs.push(if t.chance(1, 2) { Some(format!("@@B{k}@@")) } else { Some(String::new()) });
    }
    let mem_limits = mem_sweep(&mut t);
    let spec = sched_spec(&mut t);
    let mut input = sanitize(input_in(&mut t, &InputOpts { max_frags: 12, ..Default::default() }, enc));
    input = crate::gens::input::maybe_long(&mut t, input, 15);
    if cfg.adjust_charset && t.chance(2, 3) {
        let meta = *t.pick(&["<meta charset=windows-1251>", "<meta charset=\"utf-8\">", "<meta http-equiv=content-type content=\"text/html; charset=koi8-r\">", "<meta charset=utf-16>", "<meta charset=shift_jis><meta charset=big5>"]);
        let at = crate::tape::frac_to_pos(t.frac(), input.len());
        let mut v = input[..at].to_vec();
        v.extend_from_slice(meta.as_bytes());
        v.extend_from_slice(&input[at..]);
        input = v;
    }
    let cuts = spec.resolve(input.len());
    Case { input, cuts, cfg, mem_limits }
}

fn empty_strings(op: &mut Op) {
    match op {
        Op::Before(s, _) | Op::After(s, _) | Op::Prepend(s, _) | Op::Append(s, _) | Op::SetInner(s, _) | Op::Replace(s, _) | Op::SetText(s) | Op::StartBefore(s, _) | Op::StartAfter(s, _) | Op::StartReplace(s, _) => s.clear(),
        Op::StreamBefore(v, _) | Op::StreamAfter(v, _) | Op::StreamReplace(v, _) => v.iter_mut().for_each(|s| s.clear()),
        Op::OnEndTag(ops) => ops.iter_mut().for_each(empty_strings),
        Op::SetAttr(_, v) => v.clear(),
        Op::SetTagName(n) => n.clear(),
        _ => {}
    }
}

fn strip(hay: &[u8], needles: &[Vec<u8>]) -> Vec<u8> {
    let mut out = Vec::with_capacity(hay.len());
    let mut i = 0;
    'outer: while i < hay.len() {
        for n in needles {
            if !n.is_empty() && hay[i..].starts_with(n) {
                i += n.len();
                continue 'outer;
            }
        }
        out.push(hay[i]);
        i += 1;
    }
    out
}

fn find(hay: &[u8], n: &[u8]) -> Vec<usize> {
    if n.is_empty() || hay.len() < n.len() {
        return vec![];
    }
    (0..=hay.len() - n.len()).filter(|i| hay[*i..].starts_with(n)).collect()
}

/// `sink` is `received` with one contiguous run (a token starting with '<') emitted twice:
/// sink = received[..q] ++ received[q-d..] for the d extra bytes.
fn duplicated_token_run(sink: &[u8], received: &[u8]) -> bool {
    if sink.len() <= received.len() {
        return false;
    }
    let d = sink.len() - received.len();
    (d..=received.len()).any(|q| sink[..q] == received[..q] && sink[q..] == received[q - d..] && received[q - d] == b'<')
}

fn i_sentinels(out: &[u8]) -> Vec<Vec<u8>> {
    let mut v = vec![];
    let mut i = 0;
    while i + 6 <= out.len() {
        if out[i..].starts_with(b"@@I") && out[i + 4..].starts_with(b"@@") {
            v.push(out[i..i + 6].to_vec());
            i += 6;
        } else {
            i += 1;
        }
    }
    v
}

fn enc_bytes(cfg: &Cfg, s: &str) -> Vec<u8> {
    cfg.encoding.encode(s).0.into_owned()
}

/// C11 oracle for one (possibly failed) run.
pub fn check_c11(c: &Case, cfg: &Cfg, base: &RunOut, r: &RunOut, chunks: &[&[u8]], st: &mut Stats) -> PResult {
    if let Some(p) = r.panicked() {
        fail!("C11: panic: {p}");
    }
    let bail_evs: Vec<&Ev> = r.events.iter().filter(|e| matches!(e, Ev::BailOut { h, .. } if h.starts_with('b') && !h.contains('.'))).collect();
    let b_sent: Vec<Vec<u8>> = cfg.bail_outs.iter().map(|b| b.as_ref().map(|s| enc_bytes(cfg, s)).unwrap_or_default()).collect();
    let i_sent: Vec<Vec<u8>> = (0..4).map(|k| format!("@@I{k}@@").into_bytes()).collect();
    let Err(err) = &r.result else {
        ensure!(bail_evs.is_empty(), "C11: bail-out handler ran although the run completed normally");
        ensure!(b_sent.iter().all(|b| find(&r.out, b).is_empty()), "C11: bail-out content in the output of a normal run");
        return Ok(());
    };
    let flag_on = match err {
        ErrKind::Handler(_) => cfg.graceful_handler,
        ErrKind::Mem => cfg.graceful_mem,
        _ => false,
    };
    let fcall = r.failed_call.unwrap_or(chunks.len());
    let mut received: Vec<u8> = vec![];
    for ch in chunks.iter().take(fcall + 1) {
        received.extend_from_slice(ch);
    }
    let rest: Vec<u8> = chunks.iter().skip(fcall + 1).flat_map(|c| c.iter().copied()).collect();
    let in_end_handler = matches!(&r.injected_where, Some((_, Kind::DocEnd, _)));
    if !flag_on {
        ensure!(bail_evs.is_empty(), "C11: bail-out handler ran for a {:?} error although its flag is off (graceful_handler={}, graceful_mem={})", err.short(), cfg.graceful_handler, cfg.graceful_mem);
        ensure!(b_sent.iter().all(|b| find(&r.out, b).is_empty()), "C11: bail-out content emitted although the flag for this error kind is off");
        if base.result.is_ok() {
            ensure!(base.out.starts_with(&r.out), "C11: without graceful bail-out the sink got more than the normal output prefix ({} error): sink={:?}", err.short(), show(&r.out[first_diff(&r.out, &base.out).saturating_sub(10)..]));
        }
        st.label("flag_off_no_recovery");
        return Ok(());
    }
    // flag on
    if in_end_handler {
        ensure!(bail_evs.len() <= cfg.bail_outs.len(), "C11: bail-out handlers ran more than once after an end-handler failure");
        let stripped = strip(&r.out, &b_sent);
        // everything was flushed before the end handler ran: the complete output minus the
        // terminating empty chunk
        ensure!(stripped == base.out, "C11: end-handler failure: sink does not hold the complete output (diff at {})", first_diff(&stripped, &base.out));
        st.label("fault_in_end_handler");
        return Ok(());
    }
    // exactly once each, in registration order
    let hs: Vec<String> = bail_evs.iter().map(|e| e.handler().to_string()).collect();
    let want: Vec<String> = (0..cfg.bail_outs.len()).map(|k| format!("b{k}")).collect();
    ensure!(hs == want, "C11: bail-out handlers ran {hs:?}, expected exactly once each in registration order {want:?} ({} error in call #{fcall})", err.short());
    // sentinels: once, in order, contiguous; what follows is raw received input
    let mut pos: Option<usize> = None;
    for (k, b) in b_sent.iter().enumerate() {
        if b.is_empty() {
            continue;
        }
        let at = find(&r.out, b);
        ensure!(at.len() == 1, "C11: bail-out content #{k} occurs {} times in the sink", at.len());
        if let Some(p) = pos {
            ensure!(at[0] == p, "C11: bail-out contents are not contiguous / in registration order");
        }
        pos = Some(at[0] + b.len());
    }
    if let Some(p) = pos {
        let tail = &r.out[p..];
        ensure!(received.ends_with(tail), "C11: bytes after the bail-out handlers' content are not a raw suffix of the received input: tail={:?}", show(&tail[..tail.len().min(60)]));
    }
    let mut all_sent = b_sent.clone();
    all_sent.extend(i_sent.iter().cloned());
    let stripped = strip(&r.out, &all_sent);
    // inserted sentinels so far are a prefix of the fault-free run's sequence
    if base.result.is_ok() {
        let (a, b) = (i_sentinels(&r.out), i_sentinels(&base.out));
        ensure!(b.starts_with(&a), "C11: content inserted before the failure {:?} is not a prefix of the fault-free run's insertions {:?}", a.iter().map(|x| show(x)).collect::<Vec<_>>(), b.iter().map(|x| show(x)).collect::<Vec<_>>());
    }
    if stripped != received {
        // documented exception: a text handler failing on a later chunk of a partly emitted text node may duplicate
        let later_text_chunk = matches!(&r.injected_where, Some((_, Kind::Text, idx)) if *idx > 0);
        let p = first_diff(&stripped, &received);
        let dup_ok = later_text_chunk && (0..=p).any(|j| received.ends_with(&stripped[j..]) && received.len() - (stripped.len() - j) <= j);
        if dup_ok {
            st.label("documented_duplicate_text_chunk");
        } else {
            let mut whole = stripped.clone();
            whole.extend_from_slice(&rest);
            let msg = format!(
                "C11: after a graceful bail-out ({} error in call #{fcall}, fault at {:?}) sink + unwritten input is not the input: differs at byte {p}\n  sink(stripped)={:?}\n  received     ={:?}\n  input={:?} cuts={:?}",
                err.short(),
                r.injected_where,
                show(&stripped[p.saturating_sub(12)..(p + 24).min(stripped.len())]),
                show(&received[p.saturating_sub(12)..(p + 24).min(received.len())]),
                show(&c.input),
                c.cuts
            );
            // open finding: a streaming_after writer fails after its token was already emitted:
            // the bail-out flush re-emits the token's raw bytes (one contiguous duplicated run that starts with '<')
            if r.stream_failed && finding_open("C11-streaming-after-failure-duplicates-token") && duplicated_token_run(&stripped, &received) {
                return Err(Failure::known("C11-streaming-after-failure-duplicates-token", msg));
            }
            // open finding: head bytes of a multi-byte character held by the text decoder are lost
            if cfg.has_text_handler() && finding_open("C11-decoder-held-bytes-lost") && lost_are_partial_char_head(&stripped, &received, p) {
                return Err(Failure::known("C11-decoder-held-bytes-lost", msg));
            }
            return Err(Failure::new(msg));
        }
    }
    st.label(if matches!(err, ErrKind::Mem) { "graceful_mem_recovery" } else { "graceful_handler_recovery" });
    Ok(())
}

/// signature of the open finding: `received` = stripped with 1..3 extra non-ASCII bytes at `p`
fn lost_are_partial_char_head(stripped: &[u8], received: &[u8], p: usize) -> bool {
    if received.len() <= stripped.len() {
        return false;
    }
    let n = received.len() - stripped.len();
    n <= 3 && received[p..p + n].iter().all(|b| *b >= 0x80) && received[p + n..] == stripped[p..]
}

/// C12 oracle: sink protocol + fail-stop for one run
pub fn check_c12(c: &Case, cfg: &Cfg, base: &RunOut, r: &RunOut, st: &mut Stats) -> PResult {
    if let Some(p) = r.panicked() {
        fail!("C12: {p}");
    }
    ensure!(matches!(r.sink.first(), Some(SinkEv::SetEncoding(_))), "C12: the sink's first call is not set_encoding: {:?}", r.sink.first());
    let n_enc = r.sink.iter().filter(|e| matches!(e, SinkEv::SetEncoding(_))).count();
    ensure!(n_enc <= if cfg.adjust_charset { 2 } else { 1 }, "C12: set_encoding called {n_enc} times (adjust_charset={})", cfg.adjust_charset);
    let empties: Vec<usize> = r.sink.iter().enumerate().filter(|(_, e)| matches!(e, SinkEv::Chunk(c) if c.is_empty())).map(|(i, _)| i).collect();
    match &r.result {
        Ok(()) => {
            ensure!(empties == vec![r.sink.len() - 1], "C12: zero-length chunk(s) at sink call index {empties:?} of {} (must be exactly one, as the very last call of a successful end())\n  input={:?}\n  cfg={}", r.sink.len(), show(&c.input), cfg.to_json());
        }
        Err(e) => {
            ensure!(empties.is_empty(), "C12: zero-length chunk delivered in a run that failed with {}: at sink call {empties:?}\n  input={:?}", e.short(), show(&c.input));
            // nothing after the error returned (run_ext also pokes the rewriter: must panic, sink untouched)
            ensure!(r.sink_calls_at_error == Some(r.sink.len()), "C12: the sink was called after the failing call returned ({:?} -> {})", r.sink_calls_at_error, r.sink.len());
            let graceful = match e {
                ErrKind::Handler(_) => cfg.graceful_handler,
                ErrKind::Mem => cfg.graceful_mem,
                _ => false,
            };
            if !graceful && base.result.is_ok() {
                ensure!(base.out.starts_with(&r.out), "C12: bytes emitted before the {} failure are not a prefix of the complete run's output (diff at {})", e.short(), first_diff(&r.out, &base.out));
                st.label("prefix_checked");
            }
        }
    }
    Ok(())
}

pub fn explore(c: &Case, st: &mut Stats, which: u8) -> PResult {
    let chunks = split(&c.input, &c.cuts);
    let mut cfg = c.cfg.clone();
    cfg.fail_at = None;
    let base = run_ext(&chunks, &cfg, true);
    st.eval();
    let chk = |cfg: &Cfg, r: &RunOut, st: &mut Stats| -> PResult { if which == 11 { check_c11(c, cfg, &base, r, &chunks, st) } else { check_c12(c, cfg, &base, r, st) } };
    chk(&cfg, &base, st)?;
    let n = base.invocations.min(48);
    let mut later_call_fault = false;
    for i in 1..=n {
        let mut f = cfg.clone();
        f.fail_at = Some(i);
        let r = run_ext(&chunks, &f, true);
        st.eval();
        if base.result.is_ok() {
            ensure!(r.injected && matches!(r.result, Err(ErrKind::Handler(_))), "C{which}: injected handler error #{i} was not propagated: result {:?}", r.result);
        }
        later_call_fault |= r.failed_call.is_some_and(|f| f > 0);
        chk(&f, &r, st)?;
    }
    // streaming content writers failing during token emission
    let ns = base.stream_calls.min(12);
    for k in 0..ns {
        let mut f = cfg.clone();
        f.fail_stream_at = Some(k);
        let r = run_ext(&chunks, &f, true);
        st.eval();
        if base.result.is_ok() {
            ensure!(r.stream_failed && matches!(r.result, Err(ErrKind::Handler(_))), "C{which}: the error of streaming content writer #{k} was not propagated: result {:?}", r.result);
        }
        later_call_fault |= r.failed_call.is_some_and(|f| f > 0);
        chk(&f, &r, st)?;
    }
    st.label_if(ns > 0, "streaming_writer_faults");
    let mut mem_faults = 0;
    let mut prev_kind: Option<bool> = None;
    for m in &c.mem_limits {
        if *m < cfg.prealloc {
            continue;
        }
        let mut f = cfg.clone();
        f.max_mem = *m;
        let r = run_ext(&chunks, &f, true);
        st.eval();
        let is_mem = matches!(r.result, Err(ErrKind::Mem));
        mem_faults += is_mem as usize;
        later_call_fault |= is_mem && r.failed_call.is_some_and(|f| f > 0);
        chk(&f, &r, st)?;
        // stop the sweep once the limit is clearly sufficient
        if !is_mem && prev_kind == Some(false) && *m > 4096 {
            break;
        }
        prev_kind = Some(is_mem);
    }
    st.label_if(n > 0, "handler_faults");
    st.label_if(mem_faults > 0, "memory_faults");
    st.label_if(later_call_fault, "fault_in_later_call");
    st.label_if(cfg.mutates(), "mutating");
    st.label_if(cfg.adjust_charset, "adjust_charset");
    st.label_if(c.cuts.windows(2).any(|w| w[0] == w[1]) || c.cuts.first() == Some(&0) || c.input.is_empty(), "empty_write_or_doc");
    if (n > 0 || mem_faults > 0) && (later_call_fault || cfg.mutates() || cfg.adjust_charset) {
        let mut key = c.input.clone();
        key.extend(format!("{:?}{:?}", c.cuts, cfg.to_json()).as_bytes());
        if st.nontrivial(fnv(&key)) {
            st.sample(|| json!({"input": show(&c.input), "cuts": c.cuts, "cfg": cfg.to_json(), "handler_faults": n, "memory_faults": mem_faults}));
        }
    }
    Ok(())
}

pub struct C11;
pub struct C12;

impl Prop for C11 {
    fn id(&self) -> &'static str {
        "C11"
    }
    fn level(&self) -> &'static str {
        "fault_enumeration"
    }
    fn fixed_cases(&self) -> Vec<FixedCase> {
        vec![FixedCase {
            name: "streaming-after-failure-duplicates-token",
            finding: Some("C11-streaming-after-failure-duplicates-token"),
            what: "graceful handler bail-out, '<br>' with a streaming_after writer that fails: the sink holds '<br>' twice",
            run: Box::new(|st| {
                let mut cfg = Cfg { graceful_handler: true, ..Cfg::default() };
                cfg.sels.push(SelSpec { sel: "*".into(), ops: vec![ScriptOp { kind: Kind::Element, nth: None, every_chunk: false, op: Op::StreamAfter(vec!["@@I0@@".into(), String::new()], CT::Html) }], ..Default::default() });
                explore(&Case { input: b"<br>".to_vec(), cuts: vec![], cfg, mem_limits: vec![] }, st, 11)
            }),
        }, FixedCase {
            name: "decoder-held-head-bytes",
            finding: Some("C11-decoder-held-bytes-lost"),
            what: "a write boundary splits a multi-byte character and the text handler fails on the completing chunk: the head bytes held by the text decoder must still reach the sink",
            run: Box::new(|st| {
                let mut cfg = Cfg { graceful_handler: true, ..Cfg::default() };
                cfg.docs.push(DocSpec { text: true, ..Default::default() });
                let c = Case { input: "\u{1F600}<svg>".as_bytes().to_vec(), cuts: vec![2], cfg, mem_limits: vec![] };
                explore(&c, st, 11)
            }),
        }]
    }
    fn rule(&self) -> String {
        "case = (input valid in one of 36 encodings, schedule, observers [+ insert-only mutators emitting unique sentinels], 0-3 bail-out handlers emitting distinct sentinels, both graceful flags and strict drawn independently); faults: EVERY handler invocation index 1..N (N<=48) fails once, and the memory limit is swept (24 consecutive values + geometric to 16 KiB); oracle at the moment the error returns: flag on => sink (sentinels removed) == all received input, bail-out sentinels exactly once, in registration order, contiguous, followed only by raw received input, insertions a prefix of the fault-free run's; flag off / other kind / ambiguity => no bail-out handler, sink is a prefix of the normal output; end-handler fault => complete output. non-trivial = >=1 fault and (fault in a call after the first, or mutating handlers); evaluations = rewriter runs".into()
    }
    fn assumptions(&self) -> Vec<String> {
        vec!["documented exception: a text handler failing on a later chunk of a partly emitted text node may duplicate (accepted only in that exact shape)".into(), "content-removing handlers are not used (documented exception)".into()]
    }
    fn plan(&self, tier: Tier) -> Plan {
        match tier {
            Tier::Quick => Plan { cases: 400_000, tape_len: 220 },
            Tier::Thorough => Plan { cases: 12_000_000, tape_len: 300 },
        }
    }
    fn run(&self, tape: &[u16], st: &mut Stats) -> PResult {
        explore(&decode_c11(tape), st, 11)
    }
    fn describe(&self, tape: &[u16]) -> Value {
        let c = decode_c11(tape);
        json!({"input": show(&c.input), "input_bytes": c.input, "cuts": c.cuts, "cfg": c.cfg.to_json(), "mem_limits": c.mem_limits})
    }
}

impl Prop for C12 {
    fn id(&self) -> &'static str {
        "C12"
    }
    fn fixed_cases(&self) -> Vec<FixedCase> {
        vec![FixedCase {
            name: "end-tag-renamed-to-empty",
            finding: Some("C12-empty-tag-name-chunk"),
            what: "EndTag::set_name(\"\") must not hand the sink a zero-length chunk in mid-stream",
            run: Box::new(|st| {
                let mut cfg = Cfg::default();
                cfg.sels.push(SelSpec { sel: "*".into(), ops: vec![ScriptOp { kind: Kind::Element, nth: None, every_chunk: false, op: Op::OnEndTag(vec![Op::SetTagName(String::new())]) }], ..Default::default() });
                let c = Case { input: b"<script>x</script>-->".to_vec(), cuts: vec![], cfg, mem_limits: vec![] };
                explore(&c, st, 12)
            }),
        }, FixedCase {
            name: "comment-set-text-empty",
            finding: Some("C12-empty-comment-text-chunk"),
            what: "Comment::set_text(\"\") must not hand the sink a zero-length chunk in mid-stream",
            run: Box::new(|st| {
                let mut cfg = Cfg::default();
                cfg.docs.push(DocSpec { ops: vec![ScriptOp { kind: Kind::Comment, nth: None, every_chunk: false, op: Op::SetText(String::new()) }], ..Default::default() });
                let c = Case { input: b"a<!--x-->b".to_vec(), cuts: vec![], cfg, mem_limits: vec![] };
                explore(&c, st, 12)
            }),
        }]
    }
    fn level(&self) -> &'static str {
        "fault_enumeration"
    }
    fn rule(&self) -> String {
        "case = call history write*;end over (input incl. empty writes/documents, observers or mutators with empty-string insertions, optional <meta charset> with adjust_charset, bail-out handlers, graceful flags); faults: every handler invocation index 1..N (N<=48) and a memory-limit sweep; after every failing call the rewriter is poked again (must panic, sink untouched); oracle on the ordered sink log: first call set_encoding, at most one further set_encoding (only with adjust_charset), no zero-length chunk except exactly one as the very last call of a successful end(), nothing after an error returned, without graceful flags the emitted bytes are a prefix of the fault-free output. non-trivial = >=1 fault and (fault in a later call, mutating handlers or charset switching)".into()
    }
    fn plan(&self, tier: Tier) -> Plan {
        match tier {
            Tier::Quick => Plan { cases: 400_000, tape_len: 240 },
            Tier::Thorough => Plan { cases: 12_000_000, tape_len: 320 },
        }
    }
    fn run(&self, tape: &[u16], st: &mut Stats) -> PResult {
        explore(&decode_c12(tape), st, 12)
    }
    fn describe(&self, tape: &[u16]) -> Value {
        let c = decode_c12(tape);
        json!({"input": show(&c.input), "input_bytes": c.input, "cuts": c.cuts, "cfg": c.cfg.to_json(), "mem_limits": c.mem_limits})
    }
}
