#![no_main]
// libFuzzer target for C11: the fuzzer's bytes are the choice tape of the same decoder the
// proptest engine uses; the semantic oracle (check_case) runs inside the target.
use libfuzzer_sys::fuzz_target;

fuzz_target!(|data: &[u8]| {
    lolv::fuzz::run("C11", data);
});
