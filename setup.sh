#!/bin/bash
# Build the framework offline from files on disk only.
set -e
cd "$(dirname "$0")"
export CARGO_NET_OFFLINE=true
mkdir -p target evidence
( cd harness && cargo build --offline --features hooks --bin lolv )
( cd harness && cargo build --offline --features int,hooks --bin lolv-int )
echo setup done
