#!/bin/bash
# Build the framework offline from files on disk only.
set -e
cd "$(dirname "$0")"
export CARGO_NET_OFFLINE=true
mkdir -p target evidence
( cd harness && cargo build --offline --features hooks --bin lolv )
( cd harness && cargo build --offline --features int,hooks --bin lolv-int )
# C API harness: ASan build on nightly (falls back to the plain build inside the check if this fails)
( cd capi && RUSTFLAGS="-Zsanitizer=address --cfg lolv_asan" CARGO_TARGET_DIR="$PWD/target-capi-asan" cargo +nightly build --offline --target x86_64-unknown-linux-gnu ) || ( cd capi && CARGO_TARGET_DIR="$PWD/target-capi" cargo build --offline )
echo setup done
